#!/usr/bin/env python3
"""Mechanical extraction of functions from /repo into a single Verus file.

For every unit (see units.py) this
  1. locates each listed function in the *current* /repo source by impl-header + name,
  2. copies its tokens, applying only the stated rewrite rules (each application is recorded;
     an expected rule that does not apply is a lost anchor -> ExtractError -> exit 2),
  3. splices the annotations of the spec template (lines starting with `//@`) at the positions
     they have in the template, found by aligning the template's executable tokens with the
     tokens extracted from /repo (so an edit inside an expression keeps every anchor),
  4. emits one .rs file plus a line map (emitted line -> /repo file:line).

Nothing executable is taken from the template: its executable lines only serve as the alignment
reference.  `--show` prints, per function, the rule applications and the token diff between the
template's reference text and what /repo contains now.
"""
import difflib
import json
import os
import re
import sys

sys.path.insert(0, os.path.dirname(os.path.abspath(__file__)))
from rtok import (Tok, tokenize, texts, join, match_close, compile_pattern, find_pattern, instantiate,
                  OPEN, CLOSE, LexError)


class ExtractError(Exception):
    """lost anchor / unsupported structure: infrastructure problem, never a verdict"""


# ------------------------------------------------------------------ locating items in /repo
def brace_scopes(toks):
    """list of (open_idx, close_idx, header_start_idx) for every {...} block, outermost first"""
    out, stack = [], []
    for i, t in enumerate(toks):
        if t.text == "{":
            # header: back to previous ; { } at this nesting level
            j = i - 1
            depth = 0
            while j >= 0:
                x = toks[j].text
                if x in (")", "]"): depth += 1
                elif x in ("(", "["): depth -= 1
                elif depth == 0 and x in (";", "{", "}"): break
                j -= 1
            stack.append((i, j + 1))
        elif t.text == "}":
            o, h = stack.pop()
            out.append((o, i, h))
    out.sort()
    return out


def find_fn(toks, path, name):
    """(start_idx, body_open_idx, body_close_idx) of `fn name` whose enclosing block headers match
    the regexes in `path` one for one (outer to inner)."""
    scopes = brace_scopes(toks)
    hits = []
    for i, t in enumerate(toks):
        if t.text == "fn" and i + 1 < len(toks) and toks[i + 1].text == name:
            chain = [join(toks[h:o]) for (o, c, h) in scopes if o < i < c]
            if len(chain) != len(path) or not all(re.search(p, h) for p, h in zip(path, chain)): continue
            # body: first '{' at bracket depth 0 after the parameter list
            j = i
            depth = 0
            while j < len(toks):
                x = toks[j].text
                if x in ("(", "["): depth += 1
                elif x in (")", "]"): depth -= 1
                elif x == "{" and depth == 0: break
                elif x == ";" and depth == 0: raise ExtractError("fn %s has no body" % name)
                j += 1
            start = i
            while start > 0 and toks[start - 1].text in ("pub", "const", "unsafe") : start -= 1
            if start > 0 and toks[start - 1].text == ")" :  # pub(crate)
                k2 = start - 1
                while toks[k2].text != "(": k2 -= 1
                if k2 > 0 and toks[k2 - 1].text == "pub": start = k2 - 1
            hits.append((start, j, match_close(toks, j)))
    if len(hits) != 1:
        raise ExtractError("lost anchor: fn %s under %s found %d times" % (name, path, len(hits)))
    return hits[0]


def find_struct_fields(toks, name):
    """[(field, type_text)] of `struct name` (named fields)"""
    for i, t in enumerate(toks):
        if t.text == "struct" and toks[i + 1].text == name:
            j = i
            while toks[j].text != "{":
                if toks[j].text == ";": raise ExtractError("struct %s: no named fields" % name)
                j += 1
            c = match_close(toks, j)
            fields, k = [], j + 1
            while k < c:
                # skip attributes and visibility
                while toks[k].text == "#":
                    k = match_close(toks, k + 1) + 1
                if toks[k].text == "pub":
                    k += 1
                    if toks[k].text == "(": k = match_close(toks, k) + 1
                fname = toks[k].text
                assert toks[k + 1].text == ":", "struct %s field syntax" % name
                k += 2
                ty, depth = [], 0
                while k < c:
                    x = toks[k].text
                    if x in ("<", "(", "["): depth += 1
                    elif x in (">", ")", "]"): depth -= 1
                    elif x == "," and depth == 0: break
                    ty.append(toks[k]); k += 1
                fields.append((fname, join(ty)))
                k += 1
            return fields, toks[i].line
    raise ExtractError("lost anchor: struct %s" % name)


# ------------------------------------------------------------------ rewrite rules
class Rule:
    def __init__(self, rid, pattern, replacement, drops, count=1):
        self.rid, self.pattern_text, self.replacement, self.drops, self.count = rid, pattern, replacement, drops, count
        self.pat = compile_pattern(pattern)

    def apply(self, toks, log, where):
        n, pos = 0, 0
        while True:
            m = find_pattern(self.pat, toks, pos)
            if not m: break
            b, e, env = m
            if getattr(self, "post", None): env = self.post(env)
            line = toks[b].line
            new = instantiate(self.replacement, env, line, "rule:" + self.rid)
            log.append({"rule": self.rid, "fn": where, "repo_line": line,
                        "from": join(toks[b:e]), "to": join(new), "drops": self.drops})
            toks = toks[:b] + new + toks[e:]
            pos = b + len(new)
            n += 1
            if self.count != "*" and n >= self.count: break
        if self.count != "*" and n != self.count:
            raise ExtractError("lost anchor: rule %s expected %s application(s) in %s, found %d (pattern: %s)"
                               % (self.rid, self.count, where, n, self.pattern_text))
        return toks


# ------------------------------------------------------------------ template handling
DIRECTIVE_RE = re.compile(r"^\s*//@(ret|param|iter)\s+(.*)$")
ANNOT_RE = re.compile(r"^\s*//@(?!@)\s?(.*)$")


def parse_template(path, subst):
    """-> list of segments: ('text', [lines]) | ('fn', key, [lines])"""
    segs, cur, key = [], [], None
    with open(path) as f:
        lines = f.read().split("\n")
    # conditional lines: //#if NAME ... //#endif   (NAME may be negated with !)
    out, keep = [], [True]
    for ln in lines:
        m = re.match(r"^\s*//#if\s+(!?)(\w+)\s*$", ln)
        if m:
            v = bool(subst["flags"].get(m.group(2), False))
            keep.append(keep[-1] and (not v if m.group(1) else v)); continue
        if re.match(r"^\s*//#endif\s*$", ln):
            keep.pop(); continue
        if keep[-1]: out.append(ln)
    for ln in out:
        for k, v in subst["text"].items():
            ln = ln.replace(k, v)
        m = re.match(r"^\s*//@@fn\s+(\S+)\s*$", ln)
        if m:
            segs.append(("text", cur)); cur = []; key = m.group(1); continue
        if re.match(r"^\s*//@@end\s*$", ln):
            segs.append(("fn", key, cur)); cur = []; key = None; continue
        cur.append(ln)
    segs.append(("text", cur))
    return segs


def split_fn_template(lines):
    """-> (exec_tokens, chunks) where chunks = list of (pos, kind, text); pos = index of the executable
    token before which the chunk sits"""
    toks, chunks = [], []
    for ln in lines:
        d = DIRECTIVE_RE.match(ln)
        if d:
            chunks.append((len(toks), d.group(1), d.group(2).strip())); continue
        a = ANNOT_RE.match(ln)
        if a:
            chunks.append((len(toks), "annot", a.group(1))); continue
        toks.extend(tokenize(ln, origin="tpl"))
    return toks, chunks


def align(tpl, real):
    """map every template position p in [0, len(tpl)] to a position in real"""
    sm = difflib.SequenceMatcher(a=tpl, b=real, autojunk=False)
    pos = [None] * (len(tpl) + 1)
    changed = []
    for tag, i1, i2, j1, j2 in sm.get_opcodes():
        if tag == "equal":
            for k in range(i2 - i1): pos[i1 + k] = j1 + k
        else:
            changed.append((tag, i1, i2, j1, j2))
            if tag == "replace" and i2 - i1 == j2 - j1:
                for k in range(i2 - i1): pos[i1 + k] = j1 + k
            else:
                for k in range(i2 - i1): pos[i1 + k] = j1 if k == 0 else j2
    pos[len(tpl)] = len(real)
    # monotone repair
    last = 0
    for p in range(len(pos)):
        if pos[p] is None or pos[p] < last: pos[p] = last
        last = pos[p]
    return pos, changed


def consistent_rename(tpl, real, changed):
    """if every change is a 1-1 identifier substitution applied everywhere, return {old: new}"""
    ren = {}
    for tag, i1, i2, j1, j2 in changed:
        if tag != "replace" or i2 - i1 != j2 - j1: return {}
        for a, b in zip(tpl[i1:i2], real[j1:j2]):
            if not (re.fullmatch(r"[A-Za-z_]\w*", a) and re.fullmatch(r"[A-Za-z_]\w*", b)): return {}
            if ren.setdefault(a, b) != b: return {}
    for a, b in ren.items():
        if a in real or b in tpl: return {}
    return ren


class Emitter:
    def __init__(self):
        self.lines, self.map = [], {}

    def text(self, s):
        for ln in s.split("\n"): self.lines.append(ln)

    def repo_line(self, s, file, line, origin):
        self.lines.append(s)
        self.map[len(self.lines)] = {"file": file, "line": line, "origin": origin}


def requires_text(chunks, n_sig_pos):
    """text of the `requires` clause among the annotation chunks that sit before the body"""
    txt = " ".join(text for p, kind, text in chunks if kind == "annot" and p <= n_sig_pos)
    txt = re.sub(r"//.*?(?=\s(?:requires|ensures)\b|$)", "", txt) if False else txt
    m = re.search(r"\brequires\b(.*?)(?=\bensures\b|\bdecreases\b|$)", txt, re.S)
    return m.group(1).strip().rstrip(",") if m else None


def vacuity_fn(key, sig_toks, extra_params, req, self_type):
    """`fn reach_<key>(params) requires <req> { assert(false); }` with self replaced by a plain parameter"""
    i = next(i for i, t in enumerate(sig_toks) if t.text == "(")
    c = match_close(sig_toks, i)
    generics = ""
    if sig_toks[i - 1].text == ">":
        g = i - 1
        depth = 0
        while True:
            if sig_toks[g].text == ">": depth += 1
            elif sig_toks[g].text == "<": depth -= 1
            if depth == 0: break
            g -= 1
        generics = join(sig_toks[g:i])
    params = join(sig_toks[i + 1:c])
    params = re.sub(r"&\s*mut\s+self\b", "t_: &mut " + self_type, params)
    params = re.sub(r"&\s*self\b", "t_: &" + self_type, params)
    params = re.sub(r"\bmut\s+(\w+\s*:)", r"\1", params)
    if extra_params: params = (params + ", " if params.strip() else "") + ", ".join(extra_params)
    req = re.sub(r"\bself\b", "t_", req)
    return "    fn reach_%s%s(%s)\n        requires %s\n    { assert(false); }" % (key, generics, params, req)


def emit_fn(em, key, unit_fn, repo_toks, tpl_lines, relfile, report):
    tpl_toks, chunks = split_fn_template(tpl_lines)
    first_emitted = len(em.lines) + 1
    T, R = texts(tpl_toks), texts(repo_toks)
    pos, changed = align(T, R)
    ren = consistent_rename(T, R, changed) if changed else {}
    report["functions"][key]["in_sync_with_template"] = not changed
    report["functions"][key]["token_changes"] = [
        {"tag": tag, "template": " ".join(T[i1:i2]), "repo": " ".join(R[j1:j2]),
         "repo_line": (repo_toks[min(j1, len(repo_toks) - 1)].line if repo_toks else None)}
        for tag, i1, i2, j1, j2 in changed]
    if ren: report["functions"][key]["renamed_locals"] = ren
    # function-level directives
    ret_name, params, by_pos = None, [], {}
    for p, kind, text in chunks:
        if kind == "ret": ret_name = text
        elif kind == "param": params.append(text)
        else:
            if ren and kind == "annot":
                for a, b in ren.items(): text = re.sub(r"\b%s\b" % re.escape(a), b, text)
            by_pos.setdefault(pos[p], []).append((kind, text))
    toks = list(repo_toks)
    # locate signature end (body '{')
    depth, body_open = 0, None
    for i, t in enumerate(toks):
        if t.text in ("(", "["): depth += 1
        elif t.text in (")", "]"): depth -= 1
        elif t.text == "{" and depth == 0: body_open = i; break
    if body_open is None: raise ExtractError("no body for %s" % key)
    inserts = {}     # index -> text inserted before that token (same line)
    if params:
        # closing paren of the parameter list = first ')' at depth 0 after fn name
        i = next(i for i, t in enumerate(toks) if t.text == "(")
        c = match_close(toks, i)
        sep = ", " if c > i + 1 else ""
        inserts[c] = sep + ", ".join(params)
    wrap_ret = None
    if ret_name:
        arrow = next((i for i in range(body_open) if toks[i].text == "->"), None)
        if arrow is None: raise ExtractError("//@ret on %s but no return type" % key)
        end = body_open
        for i in range(arrow, body_open):
            if toks[i].text == "where": end = i; break
        wrap_ret = (arrow + 1, end)
    iter_label = None
    cur_line, buf = None, []
    state = {"depth": 0}

    def flush():
        nonlocal buf
        if buf:
            first = buf[0][1]
            words = [b[0] for b in buf]
            d = state["depth"] - (1 if words[0] == "}" else 0)
            em.repo_line("    " * (1 + max(d, 0)) + join(words), relfile, first.line, first.origin)
            for w in words:
                if w == "{": state["depth"] += 1
                elif w == "}": state["depth"] -= 1
            buf = []

    def annot(text):
        em.text("    " * (1 + max(state["depth"], 0)) + "  " + text.strip())

    for i, t in enumerate(toks):
        if i in by_pos:
            flush()
            for kind, text in by_pos[i]:
                if kind == "iter": iter_label = text
                else: annot(text)
        if cur_line is not None and t.line != cur_line: flush()
        cur_line = t.line
        if wrap_ret and i == wrap_ret[0]: buf.append(("(%s:" % ret_name, t))
        if i in inserts: buf.append((inserts[i], t))
        buf.append((t.text, t))
        if wrap_ret and i == wrap_ret[1] - 1: buf.append((")", t))
        if iter_label and t.text == "in":
            buf.append((iter_label + ":", t)); iter_label = None
    flush()
    if len(toks) in by_pos:
        for kind, text in by_pos[len(toks)]: annot(text)
    report["functions"][key]["emitted_lines"] = [first_emitted, len(em.lines)]
    tpl_body_open = next((i for i, t in enumerate(tpl_toks) if t.text == "{"), 0)
    req = requires_text(chunks, tpl_body_open)
    if req:
        # strip trailing line comments inside the clause
        req = re.sub(r"//[^\n]*", "", req)
        report["functions"][key]["requires"] = req
        report.setdefault("_vacuity", []).append(vacuity_fn(key, toks[:body_open], params, req, unit_fn.get("self_type", report["self_type"])))


def build(unit, repo_root, out_path, subst):
    """emit the Verus file for `unit` (dict, see units.py) with type substitution `subst`"""
    report = {"unit": unit["name"], "rules_applied": [], "functions": {}, "structs": {}, "self_type": unit.get("self_type", "Self")}
    src_cache = {}

    def repo_tokens(rel):
        if rel not in src_cache:
            with open(os.path.join(repo_root, rel)) as f: src_cache[rel] = tokenize(f.read())
        return src_cache[rel]

    extracted = {}
    for key, fn in unit["functions"].items():
        toks = repo_tokens(fn["file"])
        s, o, c = find_fn(toks, fn["path"], fn["name"])
        ft = list(toks[s:c + 1])
        report["functions"][key] = {"file": fn["file"], "name": fn["name"], "repo_lines": [toks[s].line, toks[c].line]}
        for r in fn.get("rules", []):
            ft = r.apply(ft, report["rules_applied"], key)
        extracted[key] = ft
    for sname, sd in unit.get("structs", {}).items():
        fields, line = find_struct_fields(repo_tokens(sd["file"]), sname)
        got = [f for f, _ in fields]
        if got != sd["fields"]:
            raise ExtractError("lost anchor: struct %s fields are %s, spec expects %s" % (sname, got, sd["fields"]))
        report["structs"][sname] = {"file": sd["file"], "line": line, "fields": fields}
    em = Emitter()
    seen = set()
    for seg in parse_template(unit["template"], subst):
        if seg[0] == "text":
            for ln in seg[1]:
                if re.match(r"^\s*//@@vacuity\s*$", ln):
                    em.text("// ---- vacuity guards (generated): each assert(false) MUST FAIL, i.e. every `requires` is satisfiable")
                    em.text("mod vacuity { use super::*;")
                    for v in report.get("_vacuity", []): em.text(v)
                    em.text("}")
                else:
                    em.text(ln)
        else:
            key = seg[1]
            if key not in extracted: raise ExtractError("template refers to unknown function %s" % key)
            seen.add(key)
            fn = unit["functions"][key]
            em.text("    // ---- from /repo/%s:%d-%d (fn %s)" % (fn["file"], report["functions"][key]["repo_lines"][0],
                                                               report["functions"][key]["repo_lines"][1], fn["name"]))
            emit_fn(em, key, fn, extracted[key], seg[2], fn["file"], report)
    missing = set(extracted) - seen
    if missing: raise ExtractError("template has no //@@fn block for %s" % sorted(missing))
    with open(out_path, "w") as f: f.write("\n".join(em.lines) + "\n")
    report["vacuity_fns"] = len(report.pop("_vacuity", []))
    report["line_map"] = em.map
    report["emitted_lines"] = len(em.lines)
    return report


if __name__ == "__main__":
    import argparse, units
    ap = argparse.ArgumentParser()
    ap.add_argument("unit"); ap.add_argument("--type", default="u64"); ap.add_argument("--repo", default="/repo")
    ap.add_argument("--out", default="/dev/stdout"); ap.add_argument("--show", action="store_true")
    a = ap.parse_args()
    u = units.UNITS[a.unit]
    try:
        rep = build(u, a.repo, a.out, units.subst_for(a.type))
    except (ExtractError, LexError) as e:
        print("EXTRACT-ERROR:", e, file=sys.stderr); sys.exit(2)
    if a.show:
        rep.pop("line_map")
        print(json.dumps(rep, indent=1))

#!/usr/bin/env python3
"""Run one Verus unit: extract from the current /repo tree, verify, classify the outcome.

Outcome per (unit, type):
  status 'verified'  every obligation discharged, and every vacuity guard failed as it must
  status 'failed'    at least one obligation NOT discharged ('failures' lists them with /repo locations)
  status 'infra'     lost anchor, rustc error, unsupported construct, rlimit, tool crash  -> exit 2 upstream
"""
import json
import os
import re
import subprocess
import sys
import time

sys.path.insert(0, os.path.dirname(os.path.abspath(__file__)))
import extract
import units as U

VERIFICATION_MESSAGES = (
    "postcondition not satisfied", "precondition not satisfied", "assertion failed", "assertion not satisfied",
    "invariant not satisfied", "possible arithmetic underflow/overflow", "possible division by zero",
    "decreases not satisfied", "could not prove termination", "index out of bounds", "possible bit shift underflow/overflow",
    "unable to prove assertion", "recommendation not met", "loop invariant not satisfied", "cannot show invariant",
    "possible truncation", "value may be out of range", "failed this postcondition", "failed precondition",
    "not all errors may have been reported", "unable to prove post-condition of closure", "post-condition of closure",
)
INFRA_MESSAGES = ("resource limit", "rlimit", "not supported", "unsupported", "Verus does not", "internal error", "panicked",
                  "unexpected token", "expected `", "expected one of", "unexpected end", "cannot parse", "unexpected eof", "expected identifier", "expected expression")


def parse_diagnostics(stderr):
    out = []
    for ln in stderr.splitlines():
        ln = ln.strip()
        if not ln.startswith("{"): continue
        try: d = json.loads(ln)
        except ValueError: continue
        if d.get("$message_type") != "diagnostic": continue
        out.append(d)
    return out


def fn_of_line(emitted, line):
    """name of the fn / proof fn enclosing emitted line `line` (1-based)"""
    for i in range(min(line, len(emitted)) - 1, -1, -1):
        m = re.match(r"^\s*(?:pub\s+)?(?:open\s+|closed\s+)?(?:broadcast\s+)?(?:proof\s+|spec\s+|exec\s+)?fn\s+(\w+)", emitted[i])
        if m and (i == 0 or not emitted[i].startswith("        ")):
            return m.group(1)
    return None


def nearest_repo(line_map, line):
    for l in range(line, 0, -1):
        e = line_map.get(l) or line_map.get(str(l))
        if e: return e
    return None


def run_verus(path, args, timeout):
    cmd = ["verus", os.path.basename(path), "--error-format=json", "--output-json", "--time"] + args
    t0 = time.time()
    try:
        p = subprocess.run(cmd, cwd=os.path.dirname(path), capture_output=True, text=True, timeout=timeout)
        rc, so, se = p.returncode, p.stdout, p.stderr
    except subprocess.TimeoutExpired as e:
        rc, so, se = 124, (e.stdout or b"").decode() if isinstance(e.stdout, bytes) else (e.stdout or ""), "timeout"
    wall = time.time() - t0
    js = None
    try:
        js = json.loads(so[so.index("{"):]) if "{" in so else None
    except ValueError:
        js = None
    return {"cmd": " ".join(cmd), "rc": rc, "json": js, "diags": parse_diagnostics(se), "stderr": se, "wall_s": wall}


def classify(diags, vir_error=False):
    """-> (verification_failures, infra_errors)"""
    vf, infra = [], []
    for d in diags:
        if d.get("level") != "error": continue
        msg = d.get("message", "")
        if msg.startswith("aborting due to"): continue
        low = msg.lower()
        if any(k.lower() in low for k in INFRA_MESSAGES) or d.get("code"): infra.append(d)   # rustc errors carry a code
        elif any(k in low for k in VERIFICATION_MESSAGES): vf.append(d)
        elif vir_error: infra.append(d)
        else: vf.append(d)        # any other Verus proof-failure wording
    return vf, infra


def run_unit(unit_name, ty, repo, workdir, rlimit=30, multiple_errors=6, timeout=600, vacuity=True):
    unit = U.UNITS[unit_name]
    os.makedirs(workdir, exist_ok=True)
    path = os.path.join(workdir, "%s_%s.rs" % (unit_name, ty))
    res = {"unit": unit_name, "type": ty, "file": path, "status": "infra", "failures": [], "infra": [],
           "functions": {}, "verified": 0, "errors": 0, "smt_ms": 0, "wall_s": 0.0}
    t0 = time.time()
    try:
        rep = extract.build(unit, repo, path, U.subst_for(ty))
    except (extract.ExtractError, extract.LexError, OSError, AssertionError, StopIteration) as e:
        res["infra"].append("extract: %s" % e)
        res["wall_s"] = time.time() - t0
        return res
    line_map = rep.pop("line_map")
    res["extract"] = rep
    emitted = open(path).read().split("\n")
    main = run_verus(path, ["--verify-root", "--rlimit", str(rlimit), "--multiple-errors", str(multiple_errors)], timeout)
    res["checker_cmd"] = main["cmd"]
    js = main["json"]
    vf, infra = classify(main["diags"], bool(js and js.get("verification-results", {}).get("encountered-vir-error")))
    if js is None or main["rc"] == 124:
        res["infra"].append("verus produced no result (rc=%s): %s" % (main["rc"], main["stderr"][-400:]))
    else:
        vr = js.get("verification-results", {})
        res["verified"], res["errors"] = vr.get("verified", 0), vr.get("errors", 0)
        if vr.get("encountered-vir-error"): res["infra"].append("VIR error")
        try:
            for mt in js["times-ms"]["smt"]["smt-run-module-times"]:
                for fb in mt.get("function-breakdown", []):
                    nm = fb["function"].split("::", 1)[-1]
                    res["functions"][nm] = {"mode": fb.get("mode:"), "ms": fb.get("time"), "success": fb.get("success")}
            res["smt_ms"] = js["times-ms"]["smt"]["smt-run"]
        except (KeyError, TypeError):
            pass
    for d in infra:
        res["infra"].append(d.get("message", "")[:300])
    for d in vf:
        if "not all errors may have been reported" in d.get("message", ""): continue
        sp = next((s for s in d.get("spans", []) if s.get("is_primary")), (d.get("spans") or [{}])[0])
        ln = sp.get("line_start", 0)
        loc = nearest_repo(line_map, ln)
        labels = [s.get("label") for s in d.get("spans", []) if s.get("label")]
        res["failures"].append({
            "message": d.get("message"), "labels": labels,
            "function": fn_of_line(emitted, ln), "emitted_line": ln,
            "emitted_text": (sp.get("text") or [{}])[0].get("text", "").strip() if sp.get("text") else "",
            "repo_file": loc["file"] if loc else None, "repo_line": loc["line"] if loc else None,
            "on_repo_text": bool(line_map.get(ln)),
        })
    # functions the SMT breakdown marks unsuccessful but without a diagnostic (e.g. rlimit) are infra
    for nm, f in res["functions"].items():
        if f.get("success") is False and not any(x["function"] and nm.endswith(x["function"]) for x in res["failures"]):
            res["infra"].append("function %s not verified and no refutation reported (rlimit/timeout?)" % nm)
    vac = None
    if vacuity and rep.get("vacuity_fns", 0) and not res["infra"]:
        vac = run_verus(path, ["--verify-module", "vacuity", "--multiple-errors", "1"], timeout)
        vjs = vac["json"] or {}
        vres = vjs.get("verification-results", {})
        res["vacuity"] = {"guards": rep["vacuity_fns"], "failed_as_required": vres.get("errors", 0), "wrongly_verified": vres.get("verified", 0)}
        if vres.get("errors", -1) != rep["vacuity_fns"] or vres.get("verified", 0) != 0:
            res["infra"].append("vacuity guard: %s of %s `assert(false)` guards failed as required (a contradictory `requires`?)"
                                % (vres.get("errors"), rep["vacuity_fns"]))
    if res["infra"]: res["status"] = "infra"
    elif res["failures"] or res["errors"]: res["status"] = "failed"
    else: res["status"] = "verified"
    res["wall_s"] = time.time() - t0
    res["line_map_size"] = len(line_map)
    return res


if __name__ == "__main__":
    import argparse, tempfile, shutil
    ap = argparse.ArgumentParser()
    ap.add_argument("unit"); ap.add_argument("--type", default="u64"); ap.add_argument("--repo", default=os.environ.get("VERIF_REPO", "/repo"))
    ap.add_argument("--keep", action="store_true")
    a = ap.parse_args()
    wd = tempfile.mkdtemp(prefix="vx_")
    r = run_unit(a.unit, a.type, a.repo, wd)
    r.pop("extract", None)
    print(json.dumps(r, indent=1))
    if not a.keep: shutil.rmtree(wd, ignore_errors=True)
    sys.exit({"verified": 0, "failed": 1, "infra": 2}[r["status"]])

"""Minimal Rust tokenizer + token-pattern matcher used by the Verus extraction pipeline.

Tokens keep the 1-based source line they came from so that verifier diagnostics on the
emitted file can be mapped back to /repo.  Comments and whitespace are dropped (this is
one of the stated things the extraction drops)."""
import re
from collections import namedtuple

Tok = namedtuple("Tok", "text line kind origin")  # origin: 'repo' | 'rule:<id>' | 'tpl'

PUNCT3 = ["<<=", ">>=", "...", "..="]
PUNCT2 = ["::", "->", "=>", "==", "!=", "<=", ">=", "&&", "||", "+=", "-=", "*=", "/=", "%=",
          "^=", "&=", "|=", "<<", ">>", ".."]
IDENT_RE = re.compile(r"[A-Za-z_][A-Za-z0-9_]*")
OPEN = {"(": ")", "[": "]", "{": "}"}
CLOSE = {")": "(", "]": "[", "}": "{"}


class LexError(Exception):
    pass


def tokenize(src, origin="repo", first_line=1):
    toks = []
    i, n, line = 0, len(src), first_line
    while i < n:
        c = src[i]
        if c == "\n":
            line += 1; i += 1; continue
        if c in " \t\r":
            i += 1; continue
        if src.startswith("//", i):
            j = src.find("\n", i)
            i = n if j < 0 else j
            continue
        if src.startswith("/*", i):
            depth, j = 1, i + 2
            while j < n and depth:
                if src.startswith("/*", j): depth += 1; j += 2
                elif src.startswith("*/", j): depth -= 1; j += 2
                else:
                    if src[j] == "\n": line += 1
                    j += 1
            i = j; continue
        # raw / byte strings
        m = re.match(r'b?r(#*)"', src[i:])
        if m:
            hashes = m.group(1)
            end = src.find('"' + hashes, i + len(m.group(0)))
            if end < 0: raise LexError("unterminated raw string at line %d" % line)
            j = end + 1 + len(hashes)
            toks.append(Tok(src[i:j], line, "str", origin)); line += src[i:j].count("\n"); i = j; continue
        if c == '"' or (c == "b" and i + 1 < n and src[i + 1] == '"'):
            j = i + (2 if c == "b" else 1)
            while j < n and src[j] != '"':
                if src[j] == "\\": j += 1
                j += 1
            j += 1
            toks.append(Tok(src[i:j], line, "str", origin)); line += src[i:j].count("\n"); i = j; continue
        if c == "'":
            # char literal or lifetime
            m = re.match(r"'(\\.[^']*|[^'\\])'", src[i:])
            if m:
                toks.append(Tok(m.group(0), line, "chr", origin)); i += len(m.group(0)); continue
            m = re.match(r"'[A-Za-z_][A-Za-z0-9_]*", src[i:])
            if m:
                toks.append(Tok(m.group(0), line, "life", origin)); i += len(m.group(0)); continue
            raise LexError("stray ' at line %d" % line)
        if c.isdigit():
            j = i
            m = re.match(r"0[xob][0-9a-fA-F_]+[a-z0-9]*", src[i:])
            if m:
                j = i + len(m.group(0))
            else:
                m = re.match(r"[0-9][0-9_]*", src[i:]); j = i + len(m.group(0))
                # fraction: '.' followed by a digit, or a trailing '.' not followed by '.', ident start
                if j < n and src[j] == "." and j + 1 < n and src[j + 1].isdigit():
                    m = re.match(r"\.[0-9][0-9_]*", src[j:]); j += len(m.group(0))
                elif j < n and src[j] == "." and not (j + 1 < n and (src[j + 1] == "." or src[j + 1].isalpha() or src[j + 1] == "_")):
                    j += 1
                m = re.match(r"[eE][+-]?[0-9_]+", src[j:])
                if m: j += len(m.group(0))
                m = re.match(r"_?(f32|f64|u8|u16|u32|u64|u128|usize|i8|i16|i32|i64|i128|isize|int|nat)", src[j:])
                if m: j += len(m.group(0))
            toks.append(Tok(src[i:j], line, "num", origin)); i = j; continue
        m = IDENT_RE.match(src, i)
        if m:
            toks.append(Tok(m.group(0), line, "id", origin)); i = m.end(); continue
        for plist, ln in ((PUNCT3, 3), (PUNCT2, 2)):
            if src[i:i + ln] in plist:
                toks.append(Tok(src[i:i + ln], line, "punct", origin)); i += ln; break
        else:
            toks.append(Tok(c, line, "punct", origin)); i += 1
    return toks


def texts(toks):
    return [t.text for t in toks]


def match_close(toks, i):
    """index of the token closing the bracket opened at toks[i]"""
    assert toks[i].text in OPEN, toks[i]
    depth = 0
    for j in range(i, len(toks)):
        t = toks[j].text
        if t in OPEN: depth += 1
        elif t in CLOSE:
            depth -= 1
            if depth == 0: return j
    raise LexError("unbalanced bracket opened at line %d" % toks[i].line)


# ------------------------------------------------------------------ token patterns
# A pattern is Rust text in which `$name` matches a non-empty balanced token sequence
# (shortest first) and `$name:tok` matches exactly one token.

def compile_pattern(text):
    pat = []
    parts = re.split(r"(\$[A-Za-z_][A-Za-z0-9_]*(?::tok)?)", text)
    for p in parts:
        if p.startswith("$"):
            nm = p[1:]
            if nm.endswith(":tok"): pat.append(("one", nm[:-4]))
            else: pat.append(("seq", nm))
        else:
            for t in tokenize(p, origin="pat"): pat.append(("lit", t.text))
    return pat


def _match_at(pat, pi, toks, ti, env):
    if pi == len(pat):
        return ti, env
    kind, val = pat[pi]
    if kind == "lit":
        if ti < len(toks) and toks[ti].text == val:
            return _match_at(pat, pi + 1, toks, ti + 1, env)
        return None
    if kind == "one":
        if ti >= len(toks): return None
        if val in env:
            if texts(env[val]) != [toks[ti].text]: return None
            return _match_at(pat, pi + 1, toks, ti + 1, env)
        e2 = dict(env); e2[val] = [toks[ti]]
        return _match_at(pat, pi + 1, toks, ti + 1, e2)
    # seq: grow a balanced sequence
    if val in env:
        k = len(env[val])
        if texts(toks[ti:ti + k]) != texts(env[val]): return None
        return _match_at(pat, pi + 1, toks, ti + k, env)
    depth = 0
    j = ti
    while j < len(toks):
        t = toks[j].text
        if t in OPEN: depth += 1
        elif t in CLOSE:
            depth -= 1
            if depth < 0: return None
        j += 1
        if depth == 0:
            e2 = dict(env); e2[val] = toks[ti:j]
            r = _match_at(pat, pi + 1, toks, j, e2)
            if r: return r
    return None


def find_pattern(pat, toks, start=0):
    """first match at or after start: (begin, end, env) or None"""
    for b in range(start, len(toks)):
        r = _match_at(pat, 0, toks, b, {})
        if r:
            return b, r[0], r[1]
    return None


def instantiate(repl_text, env, line, origin):
    out = []
    parts = re.split(r"(\$[A-Za-z_][A-Za-z0-9_]*)", repl_text)
    for p in parts:
        if p.startswith("$") and p[1:] in env:
            out.extend(env[p[1:]])
        else:
            out.extend(Tok(t.text, line, t.kind, origin) for t in tokenize(p, origin=origin))
    return out


NOSPACE_BEFORE = {",", ";", ")", "]", ".", "?", "::", "(", "[", "@"}
NOSPACE_AFTER = {"(", "[", ".", "::", "@", "#", "$"}
KEYWORDS = {"if", "while", "match", "in", "return", "for", "loop", "else", "let", "mut", "as", "requires",
            "ensures", "invariant", "decreases", "implies", "by", "invariant_except_break", "recommends"}


def join(toks):
    """readable single-line rendering of a token list (always re-tokenizes to the same tokens)"""
    out = []
    prev = None
    for t in toks:
        s = t.text if isinstance(t, Tok) else t
        if prev is not None:
            sp = True
            if s in NOSPACE_BEFORE or prev in NOSPACE_AFTER: sp = False
            if s in ("(", "[") and not (IDENT_RE.fullmatch(prev) and prev not in KEYWORDS or prev in (")", "]", "?", "!", ">")):
                sp = prev not in NOSPACE_AFTER
            if s == "!" and IDENT_RE.fullmatch(prev) and prev not in KEYWORDS: sp = False
            if s == ":" and IDENT_RE.fullmatch(prev): sp = False
            if prev == ".." or s == "..": sp = False
            if s == "." and prev == "..": sp = True
            if sp: out.append(" ")
        out.append(s)
        prev = s
    return "".join(out)

// Spec template for Hypergeometric::new (/repo/src/hypergeometric.rs) in "VF mode": Verus with every float
// operation total and every float RESULT unspecified (havocked).  What is proved is therefore exactly the
// integer content: no integer overflow / lossy cast / division by zero anywhere in the constructor, the error
// classification on the integer arguments, and the reflection contract that ties (n1, n2, k, offset_x, sign_x)
// to the support [max(0, n+K-N), min(n, K)].  Obligations whose truth depends on a float value are not provable
// in this mode and are not registered.
use vstd::prelude::*;
use vstd::std_specs::ops::*;
verus! {
#[verifier::external_body] pub broadcast proof fn f64_add_total(a: f64, b: f64) ensures #[trigger] a.add_req(b) {}
#[verifier::external_body] pub broadcast proof fn f64_mul_total(a: f64, b: f64) ensures #[trigger] a.mul_req(b) {}
#[verifier::external_body] pub broadcast proof fn f64_div_total(a: f64, b: f64) ensures #[trigger] a.div_req(b) {}
#[verifier::external_body] pub broadcast proof fn f64_sub_total(a: f64, b: f64) ensures #[trigger] a.sub_req(b) {}
#[verifier::external_body] pub broadcast proof fn f64_neg_total(a: f64) ensures #[trigger] a.neg_req() {}

pub assume_specification [ f64::floor ](x: f64) -> f64;
pub assume_specification [ f64::ln ](x: f64) -> f64;
pub assume_specification [ f64::exp ](x: f64) -> f64;
pub assume_specification [ f64::sqrt ](x: f64) -> f64;
pub assume_specification [ f64::max ](x: f64, y: f64) -> f64;
pub assume_specification [ f64::is_finite ](x: f64) -> bool;

#[verifier::external_body]
fn fraction_of_products_of_factorials(numerator: (u64, u64), denominator: (u64, u64)) -> f64 { unimplemented!() }
#[verifier::external_body]
fn fneg(x: f64) -> f64 { -x }
#[verifier::external_body]
fn ln_of_factorial(v: f64) -> f64 { unimplemented!() }

pub enum Error { PopulationTooLarge, ProbabilityTooLarge, SampleSizeTooLarge }
pub enum SamplingMethod {
    InverseTransform { initial_p: f64, initial_x: i64 },
    RejectionAcceptance { m: f64, a: f64, lambda_l: f64, lambda_r: f64, x_l: f64, x_r: f64, p1: f64, p2: f64, p3: f64 },
}
pub struct Hypergeometric { pub n1: u64, pub n2: u64, pub k: u64, pub offset_x: i64, pub sign_x: i64, pub sampling_method: SamplingMethod }

impl Hypergeometric {
//@@fn new
    pub fn new(
        total_population_size: u64,
        population_with_feature: u64,
        sample_size: u64,
    ) -> Result<Self, Error>
//@ret res
//@        requires total_population_size >= 1,     // N = 0 (then K = n = 0) is closed by a concrete native run: `n - 1` in the H2PE branch is float-guarded
//@        ensures
//@            (population_with_feature > total_population_size) ==> res matches Err(Error::ProbabilityTooLarge),
//@            (population_with_feature <= total_population_size && sample_size > total_population_size) ==> res matches Err(Error::SampleSizeTooLarge),
//@            res matches Err(e) ==> (e matches Error::ProbabilityTooLarge <==> population_with_feature > total_population_size),
//@            res matches Ok(h) ==> ({
//@                let nn = total_population_size as int; let kk = population_with_feature as int; let s = sample_size as int;
//@                let lo = if s + kk - nn > 0 { s + kk - nn } else { 0 };
//@                let hi = if s < kk { s } else { kk };
//@                let ilo = if h.k as int - h.n2 as int > 0 { h.k as int - h.n2 as int } else { 0 };
//@                let ihi = if (h.n1 as int) < (h.k as int) { h.n1 as int } else { h.k as int };
//@                &&& (h.sign_x == 1 || h.sign_x == -1)
//@                &&& (h.sign_x == 1 ==> h.offset_x as int + ilo == lo && h.offset_x as int + ihi == hi)
//@                &&& (h.sign_x == -1 ==> h.offset_x as int - ihi == lo && h.offset_x as int - ilo == hi)
//@            }),
    {
//@        broadcast use f64_add_total, f64_mul_total, f64_div_total, f64_sub_total;
        if population_with_feature > total_population_size {
            return Err(Error::ProbabilityTooLarge);
        }

        if sample_size > total_population_size {
            return Err(Error::SampleSizeTooLarge);
        }

        // The set-up below does arithmetic on population sizes in `i64`
        // (`offset_x`, `sign_x`) and computes `n + 2`.
        if total_population_size > i64::MAX as u64 - 2 {
            return Err(Error::PopulationTooLarge);
        }

        // set-up constants as function of original parameters
        let n = total_population_size;
        let (mut sign_x, mut offset_x) = (1, 0);
        let (n1, n2) = {
            // switch around success and failure states if necessary to ensure n1 <= n2
            let population_without_feature = n - population_with_feature;
            if population_with_feature > population_without_feature {
                sign_x = -1;
                offset_x = sample_size as i64;
                (population_without_feature, population_with_feature)
            } else {
                (population_with_feature, population_without_feature)
            }
        };
        // when sampling more than half the total population, take the smaller
        // group as sampled instead (we can then return n1-x instead).
        //
        // Note: the boundary condition given in the paper is `sample_size < n / 2`;
        // we're deviating here, because when n is even, it doesn't matter whether
        // we switch here or not, but when n is odd `n/2 < n - n/2`, so switching
        // when `k == n/2`, we'd actually be taking the _larger_ group as sampled.
//@        assert(sign_x == 1 || sign_x == -1);
//@        assert((n1 as int) * (sign_x as int) == (if sign_x == 1 { n1 as int } else { -(n1 as int) })) by (nonlinear_arith) requires sign_x == 1 || sign_x == -1;
//@        assert((sign_x as int) * (-1int) == -(sign_x as int)) by (nonlinear_arith);
        let k = if sample_size <= n / 2 {
            sample_size
        } else {
            offset_x += n1 as i64 * sign_x;
            sign_x *= -1;
            n - sample_size
        };

        // Algorithm H2PE has bounded runtime only if `M - max(0, k-n2) >= 10`,
        // where `M` is the mode of the distribution.
        // Use algorithm HIN for the remaining parameter space.
        //
        // Voratas Kachitvichyanukul and Bruce W. Schmeiser. 1985. Computer
        // generation of hypergeometric random variates.
        // J. Statist. Comput. Simul. Vol.22 (August 1985), 127-145
        // https://www.researchgate.net/publication/233212638
        const HIN_THRESHOLD: f64 = 10.0;
        let m = ((k + 1) as f64 * (n1 + 1) as f64 / (n + 2) as f64).floor();
        let sampling_method = if m - f64::max(0.0, k as f64 - n2 as f64) < HIN_THRESHOLD {
            let (initial_p, initial_x) = if k < n2 {
                (
                    fraction_of_products_of_factorials((n2, n - k), (n, n2 - k)),
                    0,
                )
            } else {
                (
                    fraction_of_products_of_factorials((n1, k), (n, k - n2)),
                    (k - n2) as i64,
                )
            };

            if initial_p <= 0.0 || !initial_p.is_finite() {
                return Err(Error::PopulationTooLarge);
            }

            SamplingMethod::InverseTransform {
                initial_p,
                initial_x,
            }
        } else {
            let a = ln_of_factorial(m)
                + ln_of_factorial(n1 as f64 - m)
                + ln_of_factorial(k as f64 - m)
                + ln_of_factorial((n2 - k) as f64 + m);

            let numerator = (n - k) as f64 * k as f64 * n1 as f64 * n2 as f64;
            let denominator = (n - 1) as f64 * n as f64 * n as f64;
            let d = 1.5 * (numerator / denominator).sqrt() + 0.5;

            let x_l = m - d + 0.5;
            let x_r = m + d + 0.5;

            let k_l = f64::exp(
                a - ln_of_factorial(x_l)
                    - ln_of_factorial(n1 as f64 - x_l)
                    - ln_of_factorial(k as f64 - x_l)
                    - ln_of_factorial((n2 - k) as f64 + x_l),
            );
            let k_r = f64::exp(
                a - ln_of_factorial(x_r - 1.0)
                    - ln_of_factorial(n1 as f64 - x_r + 1.0)
                    - ln_of_factorial(k as f64 - x_r + 1.0)
                    - ln_of_factorial((n2 - k) as f64 + x_r - 1.0),
            );

            let numerator = x_l * ((n2 - k) as f64 + x_l);
            let denominator = (n1 as f64 - x_l + 1.0) * (k as f64 - x_l + 1.0);
            let lambda_l = fneg((numerator / denominator).ln());

            let numerator = (n1 as f64 - x_r + 1.0) * (k as f64 - x_r + 1.0);
            let denominator = x_r * ((n2 - k) as f64 + x_r);
            let lambda_r = fneg((numerator / denominator).ln());

            // the paper literally gives `p2 + kL/lambdaL` where it (probably)
            // should have been `p2 <- p1 + kL/lambdaL`; another print error?!
            let p1 = 2.0 * d;
            let p2 = p1 + k_l / lambda_l;
            let p3 = p2 + k_r / lambda_r;

            SamplingMethod::RejectionAcceptance {
                m,
                a,
                lambda_l,
                lambda_r,
                x_l,
                x_r,
                p1,
                p2,
                p3,
            }
        };

        Ok(Hypergeometric {
            n1,
            n2,
            k,
            offset_x,
            sign_x,
            sampling_method,
        })
    }
//@@end
}

//@@vacuity

} // verus!
fn main() {}

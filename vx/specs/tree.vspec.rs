// Spec template for /repo/src/weighted/weighted_tree.rs  (properties C09, C10, and the tree part of C04/C03)
//
// Layout: plain Verus text (prelude = ASSUMED contracts on rand; spec functions; lemmas) plus
// `//@@fn <key>` ... `//@@end` blocks.  Inside such a block, lines starting with `//@` are annotations
// (requires / ensures / invariants / ghost code); every other line is the *reference copy* of the
// executable text, used only to position the annotations - the executable tokens that Verus sees are
// extracted from /repo on every run (vx/extract.py).  TTT = weight type of this instantiation.
use vstd::prelude::*;
verus! {

// ---------------------------------------------------------------- prelude (ASSUMED contracts on rand / core)
#[derive(PartialEq, Eq, Debug)]
pub enum Error { InvalidInput, InvalidWeight, InsufficientNonZero, Overflow }

type W = TTT;
pub open spec fn w_max() -> int { TTT::MAX as int }

pub trait Weight: Sized {
    const ZERO: Self;
    spec fn as_int(self) -> int;
    /// assumed contract of rand::distr::weighted::Weight::checked_add_assign for the integer impls
    /// (discharged against rand's real impl by the Kani unit `weight_checked_add_assign_*`)
    fn checked_add_assign(&mut self, v: &Self) -> (r: Result<(), ()>)
        ensures
            r.is_ok() <==> old(self).as_int() + v.as_int() <= w_max(),
            r.is_ok() ==> final(self).as_int() == old(self).as_int() + v.as_int(),
            r.is_err() ==> *final(self) == *old(self);
}
impl Weight for TTT {
    const ZERO: Self = 0;
    open spec fn as_int(self) -> int { self as int }
    #[verifier::external_body]
    fn checked_add_assign(&mut self, v: &Self) -> (r: Result<(), ()>)
    { match self.checked_add(*v) { Some(sum) => { *self = sum; Ok(()) } None => Err(()) } }
}

/// rand's `Rng` reduced to the one method used; `draws` is ghost history of the values handed out
pub trait Rng {
    spec fn draws(&self) -> Seq<int>;
    /// assumed contract on rand: integer `random_range(lo..hi)` returns lo <= t < hi (it panics if the range is empty)
    fn random_range(&mut self, r: core::ops::Range<W>) -> (t: W)
        requires r.start < r.end,
        ensures r.start <= t < r.end, final(self).draws() == old(self).draws().push(t as int);
}

// ---------------------------------------------------------------- robustness: the usual bit-twiddling spellings of /2 and *2
global size_of usize == 8;    // ASSUMED: 64-bit target (needed only for the two bit-vector lemmas below)
pub broadcast proof fn lemma_shr1(x: usize) ensures #[trigger] (x >> 1) == x / 2
{ assert(x >> 1 == x / 2) by (bit_vector); }
pub broadcast proof fn lemma_shl1(x: usize) requires x <= 0x7fff_ffff_ffff_ffff ensures #[trigger] (x << 1) == x * 2
{ assert(x <= 0x7fff_ffff_ffff_ffffusize ==> x << 1 == x * 2) by (bit_vector); }

// ---------------------------------------------------------------- specs
pub open spec fn sub_at(s: Seq<W>, i: int) -> int { if 0 <= i < s.len() { s[i] as int } else { 0 } }
pub open spec fn child_sum(s: Seq<W>, i: int) -> int { sub_at(s, 2*i+1) + sub_at(s, 2*i+2) }
/// the weight of node i as the structure encodes it
pub open spec fn wt(s: Seq<W>, i: int) -> int { s[i] as int - child_sum(s, i) }
/// representation invariant
pub open spec fn wf(s: Seq<W>) -> bool {
    &&& s.len() <= usize::MAX / 2 - 4
    &&& forall|i: int| 0 <= i < s.len() ==> #[trigger] wt(s, i) >= 0
    &&& forall|i: int| 0 <= i < s.len() ==> (#[trigger] s[i]) >= 0
}
/// abstract view: the weight list
pub open spec fn view(s: Seq<W>) -> Seq<int> { Seq::new(s.len(), |i: int| wt(s, i)) }
pub open spec fn total(s: Seq<W>) -> int { sub_at(s, 0) }

/// subtree total of node i in the weight list ws
pub open spec fn st(ws: Seq<int>, i: int) -> int decreases (if i < ws.len() { ws.len() - i } else { 0 }) {
    if i < 0 || i >= ws.len() { 0 } else { ws[i] + st(ws, 2*i+1) + st(ws, 2*i+2) }
}
pub open spec fn ints(v: Seq<W>) -> Seq<int> { Seq::new(v.len(), |i: int| v[i] as int) }
pub open spec fn nonneg(ws: Seq<int>) -> bool { forall|i: int| 0 <= i < ws.len() ==> #[trigger] ws[i] >= 0 }

/// the walk of try_sample as a function of the drawn target
pub open spec fn descend(s: Seq<W>, idx: int, t: int) -> (int, int) decreases (if idx < s.len() { s.len() - idx } else { 0 }) {
    if idx < 0 || idx >= s.len() { (idx, t) } else {
        let l = sub_at(s, 2*idx+1);
        if t < l { descend(s, 2*idx+1, t) } else {
            let t1 = t - l;
            let r = sub_at(s, 2*idx+2);
            if t1 < r { descend(s, 2*idx+2, t1) } else { (idx, t1 - r) }
        }
    }
}
/// first target that lands in the subtree of i
pub open spec fn base(s: Seq<W>, i: int) -> int decreases i {
    if i <= 0 { 0 } else {
        let p = (i - 1) / 2;
        if i == 2*p+1 { base(s, p) } else { base(s, p) + sub_at(s, 2*p+1) }
    }
}
pub open spec fn rank(s: Seq<W>, i: int, r: int) -> int { base(s, i) + child_sum(s, i) + r }

/// j is an ancestor-or-self of i in the implicit heap layout
pub open spec fn anc(i: int, j: int) -> bool decreases i {
    if i == j { true } else if i <= j || i <= 0 { false } else { anc((i - 1) / 2, j) }
}
pub open spec fn ind(b: bool) -> int { if b { 1 } else { 0 } }

// ---------------------------------------------------------------- lemmas about anc
pub proof fn lemma_anc_le(i: int, j: int)
    requires anc(i, j), ensures j <= i, decreases i
{ if i != j && i > j && i > 0 { lemma_anc_le((i - 1) / 2, j); } }

pub proof fn lemma_anc_parent(k: int, idx: int)
    requires anc(k, idx), idx > 0, ensures anc(k, (idx - 1) / 2), decreases k
{
    if k == idx {
        assert(anc((idx - 1) / 2, (idx - 1) / 2));
    } else {
        lemma_anc_le(k, idx);
        lemma_anc_parent((k - 1) / 2, idx);
        lemma_anc_le((k - 1) / 2, (idx - 1) / 2);
    }
}

pub proof fn lemma_anc_chain(k: int, a: int, b: int)
    requires anc(k, a), anc(k, b), b <= a, ensures anc(a, b), decreases k
{
    if k == a { } else if a == b { } else {
        lemma_anc_le(k, a);
        lemma_anc_chain((k - 1) / 2, a, b);
    }
}

/// path nodes strictly between par(idx) and idx do not exist
pub proof fn lemma_anc_gap(k: int, idx: int, x: int)
    requires anc(k, idx), anc(k, x), x < idx, idx > 0, ensures x <= (idx - 1) / 2
{
    lemma_anc_chain(k, idx, x);
    lemma_anc_le((idx - 1) / 2, x);
}

/// anc(i,j) <==> i==j or anc(i, left(j)) or anc(i, right(j)), exclusively
pub proof fn lemma_anc_children(i: int, j: int)
    requires 0 <= i, 0 <= j
    ensures ind(anc(i, j)) == ind(i == j) + ind(anc(i, 2*j+1)) + ind(anc(i, 2*j+2))
    decreases i
{
    if i <= j {
    } else if i == 2*j+1 {
        assert(anc(j, j));
    } else if i == 2*j+2 {
        assert(anc(j, j));
    } else if i > 2*j+2 {
        lemma_anc_children((i - 1) / 2, j);
    } else {
        let p = (i - 1) / 2;
        assert(p < j);
        if anc(p, j) { lemma_anc_le(p, j); }
    }
}

pub proof fn lemma_anc_root(i: int)
    requires 0 <= i, ensures anc(i, 0), decreases i
{ if i > 0 { lemma_anc_root((i - 1) / 2); } }

pub proof fn lemma_le_anc(s: Seq<W>, i: int, a: int)
    requires wf(s), 0 <= i < s.len(), anc(i, a), 0 <= a
    ensures s[a] >= s[i]
    decreases i
{
    if i != a {
        lemma_anc_le(i, a);
        let p = (i - 1) / 2;
        lemma_le_anc(s, p, a);
        assert(wt(s, p) >= 0);
        assert(2*p+1 == i || 2*p+2 == i);
    }
}

/// the common post-state of every "walk up from k and add d" loop that has reached `from`
pub open spec fn bumped(base: Seq<W>, cur: Seq<W>, k: int, from: int, d: int) -> bool {
    &&& cur.len() == base.len()
    &&& forall|x: int| 0 <= x < base.len() ==> #[trigger] cur[x] as int == base[x] as int + (if anc(k, x) && x >= from { d } else { 0 })
}

/// after a complete walk (from == 0) only the weight at k changed, by d
pub proof fn lemma_bumped_view(base: Seq<W>, cur: Seq<W>, k: int, d: int)
    requires bumped(base, cur, k, 0, d), 0 <= k < base.len(), base.len() <= usize::MAX / 2 - 4,
    ensures forall|j: int| 0 <= j < base.len() ==> #[trigger] wt(cur, j) == wt(base, j) + (if j == k { d } else { 0 })
{
    assert forall|j: int| 0 <= j < base.len() implies #[trigger] wt(cur, j) == wt(base, j) + (if j == k { d } else { 0 }) by {
        lemma_anc_children(k, j);
        let l = 2*j+1; let r = 2*j+2;
        assert(sub_at(cur, l) == sub_at(base, l) + (if anc(k, l) { d } else { 0 })) by {
            if l < base.len() { assert(cur[l] as int == base[l] as int + (if anc(k, l) && l >= 0 { d } else { 0 })); }
            else { if anc(k, l) { lemma_anc_le(k, l); } }
        }
        assert(sub_at(cur, r) == sub_at(base, r) + (if anc(k, r) { d } else { 0 })) by {
            if r < base.len() { assert(cur[r] as int == base[r] as int + (if anc(k, r) && r >= 0 { d } else { 0 })); }
            else { if anc(k, r) { lemma_anc_le(k, r); } }
        }
        assert(cur[j] as int == base[j] as int + (if anc(k, j) && j >= 0 { d } else { 0 }));
    }
}

/// one step of a walk: the node just updated is the next ancestor, everything else is as before
pub proof fn lemma_bump_step(base: Seq<W>, before: Seq<W>, cur: Seq<W>, k: int, prev: int, d: int)
    requires
        bumped(base, before, k, prev, d), anc(k, prev), prev > 0, 0 <= k,
        cur.len() == before.len(), (prev - 1) / 2 < before.len(),
        cur[(prev - 1) / 2] as int == before[(prev - 1) / 2] as int + d,
        forall|x: int| 0 <= x < before.len() && x != (prev - 1) / 2 ==> cur[x] == before[x],
    ensures bumped(base, cur, k, (prev - 1) / 2, d), anc(k, (prev - 1) / 2)
{
    let idx = (prev - 1) / 2;
    lemma_anc_parent(k, prev);
    assert forall|x: int| 0 <= x < base.len() implies #[trigger] cur[x] as int == base[x] as int + (if anc(k, x) && x >= idx { d } else { 0 }) by {
        assert(before[x] as int == base[x] as int + (if anc(k, x) && x >= prev { d } else { 0 }));
        if anc(k, x) && x < prev { lemma_anc_gap(k, prev, x); }
    }
}

/// pop: cur == bumped(drop_last(s0), -last) from 0  ==>  view(cur) == view(s0).drop_last(), wf(cur)
pub proof fn lemma_bumped_tail(s0: Seq<W>, base: Seq<W>, cur: Seq<W>, n1: int, d: int)
    requires wf(s0), n1 == s0.len() - 1, n1 >= 0, base == s0.drop_last(), d == -(s0[n1] as int),
             bumped(base, cur, n1, 0, d),
    ensures wf(cur), view(cur) == view(s0).drop_last(), s0[n1] as int == view(s0).last()
{
    assert(wt(s0, n1) >= 0);
    assert forall|j: int| 0 <= j < base.len() implies #[trigger] wt(cur, j) == wt(s0, j) by {
        lemma_anc_children(n1, j);
        let l = 2*j+1; let r = 2*j+2;
        assert(wt(s0, j) >= 0);
        assert(cur[j] as int == base[j] as int + (if anc(n1, j) && j >= 0 { d } else { 0 }));
        assert(sub_at(cur, l) == sub_at(s0, l) + (if anc(n1, l) { d } else { 0 })) by {
            if l < base.len() { assert(cur[l] as int == base[l] as int + (if anc(n1, l) && l >= 0 { d } else { 0 })); }
            else if l == n1 { assert(anc(n1, n1)); }
            else { if anc(n1, l) { lemma_anc_le(n1, l); } }
        }
        assert(sub_at(cur, r) == sub_at(s0, r) + (if anc(n1, r) { d } else { 0 })) by {
            if r < base.len() { assert(cur[r] as int == base[r] as int + (if anc(n1, r) && r >= 0 { d } else { 0 })); }
            else if r == n1 { assert(anc(n1, n1)); }
            else { if anc(n1, r) { lemma_anc_le(n1, r); } }
        }
        if anc(n1, j) { lemma_anc_le(n1, j); }
    }
    assert(view(cur) =~= view(s0).drop_last());
    assert forall|x: int| 0 <= x < cur.len() implies (#[trigger] cur[x]) >= 0 by {
        assert(cur[x] as int == base[x] as int + (if anc(n1, x) && x >= 0 { d } else { 0 }));
        assert(s0[x] >= 0);
        if anc(n1, x) { lemma_le_anc(s0, n1, x); }
    }
}
/// s[k] >= wt(s,k)  (children subtotals are non-negative)
pub proof fn lemma_child_nonneg(s: Seq<W>, k: int)
    requires wf(s), 0 <= k < s.len()
    ensures s[k] as int >= wt(s, k)
{
    if 2*k+1 < s.len() { assert(s[2*k+1] >= 0); }
    if 2*k+2 < s.len() { assert(s[2*k+2] >= 0); }
}

pub proof fn lemma_st_nonneg(ws: Seq<int>, i: int)
    requires nonneg(ws), ensures st(ws, i) >= 0, decreases (if i < ws.len() { ws.len() - i } else { 0 })
{ if 0 <= i < ws.len() { lemma_st_nonneg(ws, 2*i+1); lemma_st_nonneg(ws, 2*i+2); } }

pub proof fn lemma_st_le_root(ws: Seq<int>, i: int)
    requires nonneg(ws), 0 <= i < ws.len(), ensures st(ws, i) <= st(ws, 0), decreases i
{
    if i > 0 {
        let p = (i - 1) / 2;
        lemma_st_le_root(ws, p);
        lemma_st_nonneg(ws, 2*p+1); lemma_st_nonneg(ws, 2*p+2);
        assert(2*p+1 == i || 2*p+2 == i);
    }
}

// ---------------------------------------------------------------- the data structure: executable text comes from /repo
pub struct WeightedTreeIndex { pub subtotals: Vec<W> }

impl WeightedTreeIndex {
//@@fn is_empty
    pub fn is_empty(&self) -> bool
//@ret r
//@        ensures r == (self.subtotals.len() == 0)
    {
        self.subtotals.is_empty()
    }
//@@end

//@@fn len
    pub fn len(&self) -> usize
//@ret r
//@        ensures r == self.subtotals.len()
    {
        self.subtotals.len()
    }
//@@end

//@@fn is_valid
    pub fn is_valid(&self) -> bool
//@ret r
//@        ensures r == (total(self.subtotals@) > 0)
    {
        if let Some(weight) = self.subtotals.first() {
            *weight > W::ZERO
        } else {
            false
        }
    }
//@@end

//@@fn get
    pub fn get(&self, index: usize) -> W
//@ret r
//@        requires wf(self.subtotals@), index < self.subtotals.len(),
//@        ensures r as int == view(self.subtotals@)[index as int]
    {
//@        broadcast use {lemma_shr1, lemma_shl1};
//@        assert(wt(self.subtotals@, index as int) >= 0);
        let left_index = 2 * index + 1;
        let right_index = 2 * index + 2;
        let mut w = self.subtotals[index].clone();
        w -= self.subtotal(left_index);
        w -= self.subtotal(right_index);
        w
    }
//@@end

//@@fn pop
    pub fn pop(&mut self) -> Option<W>
//@ret res
//@        requires wf(old(self).subtotals@),
//@        ensures
//@            res.is_none() <==> old(self).subtotals.len() == 0,
//@            res.is_none() ==> final(self).subtotals@ == old(self).subtotals@,
//@            res.is_some() ==> wf(final(self).subtotals@)
//@                && res.unwrap() as int == view(old(self).subtotals@).last()
//@                && view(final(self).subtotals@) == view(old(self).subtotals@).drop_last(),
    {
//@        broadcast use {lemma_shr1, lemma_shl1};
        match self.subtotals.pop() { Some(v_) => { let weight = &v_; {
//@            let ghost s0 = old(self).subtotals@;
//@            let ghost n1 = s0.len() as int - 1;          // index of the popped leaf
//@            let ghost base = s0.drop_last();
//@            let ghost d = -(*weight as int);
            let mut index = self.len();
//@            assert(anc(n1, n1));
//@            assert(wt(s0, n1) >= 0);
            while index != 0
//@                invariant
//@                    wf(s0), n1 == s0.len() - 1, base == s0.drop_last(), 0 <= index <= n1,
//@                    d == -(s0[n1] as int), *weight == s0[n1],
//@                    anc(n1, index as int),
//@                    bumped(base, self.subtotals@, n1, index as int, d),
//@                decreases index,
            {
//@                broadcast use {lemma_shr1, lemma_shl1};
//@                let ghost prev = index as int;
//@                let ghost before = self.subtotals@;
//@                proof {
//@                    lemma_anc_parent(n1, prev);
//@                    lemma_le_anc(s0, n1, (prev - 1) / 2);
//@                    assert(before[(prev - 1) / 2] as int == base[(prev - 1) / 2] as int + (if anc(n1, (prev - 1) / 2) && (prev - 1) / 2 >= prev { d } else { 0 }));
//@                }
                index = (index - 1) / 2;
                self.subtotals[index] -= weight.clone();
//@                proof { lemma_bump_step(base, before, self.subtotals@, n1, prev, d); }
            }
//@            proof { lemma_bumped_tail(s0, base, self.subtotals@, n1, d); }
        } ; Some(v_) } None => None }
    }
//@@end

//@@fn push
    pub fn push(&mut self, weight: W) -> Result<(), Error>
//@ret res
//@        requires wf(old(self).subtotals@), old(self).subtotals.len() < usize::MAX / 2 - 4,
//@        ensures
//@            res.is_err() ==> final(self).subtotals@ == old(self).subtotals@,
//@            res.is_err() <==> weight < 0 || total(old(self).subtotals@) + weight > w_max(),
//@            res matches Err(e) ==> (e == Error::InvalidWeight <==> weight < 0) && (e == Error::Overflow <==> weight >= 0),
//@            res.is_ok() ==> wf(final(self).subtotals@) && view(final(self).subtotals@) == view(old(self).subtotals@).push(weight as int),
    {
//@        broadcast use {lemma_shr1, lemma_shl1};
        if !(weight >= W::ZERO) {
            return Err(Error::InvalidWeight);
        }
        if let Some(total) = self.subtotals.first() {
            let mut total = total.clone();
            if total.checked_add_assign(&weight).is_err() {
                return Err(Error::Overflow);
            }
        }
        let mut index = self.len();
        self.subtotals.push(weight.clone());
//@        let ghost s0 = old(self).subtotals@;
//@        let ghost n = s0.len() as int;
//@        let ghost base = s0.push(0);
//@        assert(anc(n, n));
        while index != 0
//@            invariant
//@                wf(s0), n == s0.len(), base == s0.push(0), 0 <= index <= n,
//@                total(s0) + weight <= w_max(),
//@                anc(n, index as int),
//@                bumped(base, self.subtotals@, n, index as int, weight as int),
//@            decreases index,
        {
//@            broadcast use {lemma_shr1, lemma_shl1};
//@            let ghost prev = index as int;
//@            let ghost before = self.subtotals@;
//@            proof {
//@                lemma_anc_parent(n, prev);
//@                lemma_anc_root((prev - 1) / 2);
//@                lemma_le_anc(s0, (prev - 1) / 2, 0);
//@                assert(before[(prev - 1) / 2] as int == base[(prev - 1) / 2] as int + (if anc(n, (prev - 1) / 2) && (prev - 1) / 2 >= prev { weight as int } else { 0 }));
//@            }
            index = (index - 1) / 2;
            self.subtotals[index].checked_add_assign(&weight).unwrap();
//@            proof { lemma_bump_step(base, before, self.subtotals@, n, prev, weight as int); }
        }
//@        proof {
//@            lemma_bumped_view(base, self.subtotals@, n, weight as int);
//@            assert forall|j: int| 0 <= j < base.len() implies #[trigger] wt(base, j) == (if j < n { wt(s0, j) } else { 0 }) by {
//@                if j < n { assert(wt(s0, j) >= 0); }
//@            }
//@            assert(view(self.subtotals@) =~= view(s0).push(weight as int));
//@            assert forall|x: int| 0 <= x < self.subtotals@.len() implies (#[trigger] self.subtotals@[x]) >= 0 by {
//@                assert(self.subtotals@[x] as int == base[x] as int + (if anc(n, x) && x >= 0 { weight as int } else { 0 }));
//@                if x < n { assert(s0[x] >= 0); }
//@            }
//@        }
        Ok(())
    }
//@@end

//@@fn update
    pub fn update(&mut self, mut index: usize, weight: W) -> Result<(), Error>
//@ret res
//@        requires wf(old(self).subtotals@), index < old(self).subtotals.len(),
//@        ensures
//@            res.is_err() ==> final(self).subtotals@ == old(self).subtotals@,
//@            res.is_err() <==> weight < 0 || total(old(self).subtotals@) - view(old(self).subtotals@)[index as int] + weight > w_max(),
//@            res matches Err(e) ==> (e == Error::InvalidWeight <==> weight < 0) && (e == Error::Overflow <==> weight >= 0),
//@            res.is_ok() ==> wf(final(self).subtotals@) && view(final(self).subtotals@) == view(old(self).subtotals@).update(index as int, weight as int),
    {
//@        broadcast use {lemma_shr1, lemma_shl1};
        if !(weight >= W::ZERO) {
            return Err(Error::InvalidWeight);
        }
        let old_weight = self.get(index);
//@        let ghost s0 = old(self).subtotals@;
//@        let ghost k = index as int;
//@        proof { lemma_anc_root(k); lemma_le_anc(s0, k, 0); assert(wt(s0, k) >= 0); assert(anc(k, k)); }
        if weight > old_weight {
            let mut difference = weight;
            difference -= old_weight;
            if let Some(total) = self.subtotals.first() {
                let mut total = total.clone();
                if total.checked_add_assign(&difference).is_err() {
                    return Err(Error::Overflow);
                }
            }
//@            let ghost d = difference as int;
            self.subtotals[index]
                .checked_add_assign(&difference)
                .unwrap();
            while index != 0
//@                invariant
//@                    wf(s0), 0 <= index <= k < s0.len(), d == difference as int, d > 0,
//@                    total(s0) + d <= w_max(),
//@                    anc(k, index as int),
//@                    bumped(s0, self.subtotals@, k, index as int, d),
//@                decreases index,
            {
//@                broadcast use {lemma_shr1, lemma_shl1};
//@                let ghost prev = index as int;
//@                let ghost before = self.subtotals@;
//@                proof {
//@                    lemma_anc_parent(k, prev);
//@                    lemma_anc_root((prev - 1) / 2);
//@                    lemma_le_anc(s0, (prev - 1) / 2, 0);
//@                    assert(before[(prev - 1) / 2] as int == s0[(prev - 1) / 2] as int + (if anc(k, (prev - 1) / 2) && (prev - 1) / 2 >= prev { d } else { 0 }));
//@                }
                index = (index - 1) / 2;
                self.subtotals[index]
                    .checked_add_assign(&difference)
                    .unwrap();
//@                proof { lemma_bump_step(s0, before, self.subtotals@, k, prev, d); }
            }
//@            proof {
//@                lemma_bumped_view(s0, self.subtotals@, k, d);
//@                assert(view(self.subtotals@) =~= view(s0).update(k, weight as int));
//@                assert forall|x: int| 0 <= x < s0.len() implies (#[trigger] self.subtotals@[x]) >= 0 by {
//@                    assert(self.subtotals@[x] as int == s0[x] as int + (if anc(k, x) && x >= 0 { d } else { 0 })); assert(s0[x] >= 0);
//@                }
//@            }
        } else if weight < old_weight {
            let mut difference = old_weight;
            difference -= weight;
//@            let ghost d = -(difference as int);
            self.subtotals[index] -= difference.clone();
            while index != 0
//@                invariant
//@                    wf(s0), 0 <= index <= k < s0.len(), d == -(difference as int), d < 0,
//@                    -d <= wt(s0, k),
//@                    anc(k, index as int),
//@                    bumped(s0, self.subtotals@, k, index as int, d),
//@                decreases index,
            {
//@                broadcast use {lemma_shr1, lemma_shl1};
//@                let ghost prev = index as int;
//@                let ghost before = self.subtotals@;
//@                proof {
//@                    lemma_anc_parent(k, prev);
//@                    lemma_le_anc(s0, k, (prev - 1) / 2);
//@                    assert(before[(prev - 1) / 2] as int == s0[(prev - 1) / 2] as int + (if anc(k, (prev - 1) / 2) && (prev - 1) / 2 >= prev { d } else { 0 }));
//@                }
                index = (index - 1) / 2;
                self.subtotals[index] -= difference.clone();
//@                proof { lemma_bump_step(s0, before, self.subtotals@, k, prev, d); }
            }
//@            proof {
//@                lemma_bumped_view(s0, self.subtotals@, k, d);
//@                assert(view(self.subtotals@) =~= view(s0).update(k, weight as int));
//@                assert forall|x: int| 0 <= x < s0.len() implies (#[trigger] self.subtotals@[x]) >= 0 by {
//@                    assert(self.subtotals@[x] as int == s0[x] as int + (if anc(k, x) && x >= 0 { d } else { 0 })); assert(s0[x] >= 0);
//@                    if anc(k, x) { lemma_le_anc(s0, k, x); assert(wt(s0, k) >= 0); lemma_child_nonneg(s0, k); }
//@                }
//@            }
        }
//@        proof { if weight == old_weight { assert(view(self.subtotals@) =~= view(s0).update(k, weight as int)); } }
        Ok(())
    }
//@@end

//@@fn new
    pub fn new(weights: Vec<W>) -> Result<Self, Error>
//@ret res
//@        requires weights.len() <= usize::MAX / 2 - 4,
//@        ensures
//@            res.is_err() <==> !nonneg(ints(weights@)) || st(ints(weights@), 0) > w_max(),
//@            res matches Err(e) ==> (e == Error::InvalidWeight <==> !nonneg(ints(weights@))) && (e == Error::Overflow <==> nonneg(ints(weights@))),
//@            res matches Ok(t) ==> wf(t.subtotals@) && view(t.subtotals@) == ints(weights@),
    {
//@        broadcast use {lemma_shr1, lemma_shl1};
        let mut subtotals: Vec<W> = weights;
//@        let ghost ws = ints(weights@);
//@iter it
        for weight in subtotals.iter()
//@            invariant subtotals@ == weights@, ws == ints(weights@),
//@                forall|j: int| 0 <= j < it.index@ ==> #[trigger] ws[j] >= 0,
        {
//@            broadcast use {lemma_shr1, lemma_shl1};
//@            assert(*weight == subtotals@[it.index@]);
//@            proof { if !(*weight >= 0) { assert(ws[it.index@] < 0); } }
            if !(*weight >= W::ZERO) {
                return Err(Error::InvalidWeight);
            }
        }
        let n = subtotals.len();
//@        assert(nonneg(ws));
//@iter it
        for i in (1..n).rev()
//@            invariant
//@                n == weights.len(), subtotals.len() == n, ws == ints(weights@), nonneg(ws), n <= usize::MAX / 2 - 4,
//@                forall|j: int| 0 <= j < n ==> #[trigger] subtotals@[j] as int == ws[j]
//@                    + (if 2*j+1 >= n - it.index@ { st(ws, 2*j+1) } else { 0 })
//@                    + (if 2*j+2 >= n - it.index@ { st(ws, 2*j+2) } else { 0 }),
        {
//@            broadcast use {lemma_shr1, lemma_shl1};
//@            let ghost b = n as int - it.index@;
//@            assert(i as int == b - 1);
            let w = subtotals[i].clone();
            let parent = (i - 1) / 2;
//@            proof {
//@                assert(subtotals@[i as int] as int == st(ws, i as int));
//@                lemma_st_nonneg(ws, 2*(parent as int)+1);
//@                lemma_st_nonneg(ws, 2*(parent as int)+2);
//@                lemma_st_le_root(ws, parent as int);
//@            }
//@            let ghost before = subtotals@;
            subtotals[parent]
                .checked_add_assign(&w)
                .map_err(|_e: ()| -> (r: Error) ensures r == Error::Overflow { Error::Overflow })?;
//@            proof {
//@                assert forall|j: int| 0 <= j < n implies #[trigger] subtotals@[j] as int == ws[j]
//@                    + (if 2*j+1 >= b - 1 { st(ws, 2*j+1) } else { 0 })
//@                    + (if 2*j+2 >= b - 1 { st(ws, 2*j+2) } else { 0 }) by {
//@                    assert(before[j] as int == ws[j]
//@                        + (if 2*j+1 >= b { st(ws, 2*j+1) } else { 0 })
//@                        + (if 2*j+2 >= b { st(ws, 2*j+2) } else { 0 }));
//@                }
//@            }
        }
//@        proof {
//@            assert forall|j: int| 0 <= j < n implies #[trigger] subtotals@[j] as int == st(ws, j) by {
//@                if 2*j+1 < 1 { }
//@            }
//@            assert forall|j: int| 0 <= j < n implies #[trigger] wt(subtotals@, j) == ws[j] by {
//@                assert(subtotals@[j] as int == st(ws, j));
//@                if 2*j+1 < n { assert(subtotals@[2*j+1] as int == st(ws, 2*j+1)); }
//@                if 2*j+2 < n { assert(subtotals@[2*j+2] as int == st(ws, 2*j+2)); }
//@            }
//@            assert(view(subtotals@) =~= ws);
//@            if n > 0 { assert(subtotals@[0] as int == st(ws, 0)); }
//@            assert forall|j: int| 0 <= j < n implies (#[trigger] subtotals@[j]) >= 0 by { assert(subtotals@[j] as int == st(ws, j)); lemma_st_nonneg(ws, j); }
//@        }
        Ok(Self { subtotals })
    }
//@@end

//@@fn try_sample
    pub fn try_sample<R: Rng>(&self, rng: &mut R) -> Result<usize, Error>
//@ret res
//@        requires wf(self.subtotals@),
//@        ensures
//@            res.is_err() <==> total(self.subtotals@) == 0,
//@            res matches Err(e) ==> e == Error::InsufficientNonZero && final(rng).draws() == old(rng).draws(),
//@            res matches Ok(i) ==> i < self.subtotals.len()
//@                && wt(self.subtotals@, i as int) > 0
//@                && final(rng).draws().len() == old(rng).draws().len() + 1
//@                && ({ let t = final(rng).draws().last();
//@                      0 <= t < total(self.subtotals@)
//@                      && descend(self.subtotals@, 0, t).0 == i as int
//@                      && 0 <= descend(self.subtotals@, 0, t).1 < wt(self.subtotals@, i as int) }),
    {
//@        broadcast use {lemma_shr1, lemma_shl1};
        let total_weight = self.subtotals.first().cloned().unwrap_or(W::ZERO);
        if total_weight == W::ZERO {
            return Err(Error::InsufficientNonZero);
        }
        let mut target_weight = rng.random_range(W::ZERO..total_weight);
        let mut index = 0;
//@        let ghost t0 = target_weight as int;
//@        let ghost s = self.subtotals@;
        loop
//@            invariant_except_break
//@                0 <= target_weight < s[index as int],
//@                descend(s, 0, t0) == descend(s, index as int, target_weight as int),
//@            invariant
//@                wf(s), s == self.subtotals@, 0 <= index < s.len(),
//@            ensures
//@                0 <= index < s.len(),
//@                descend(s, 0, t0) == (index as int, target_weight as int),
//@                0 <= target_weight < wt(s, index as int),
//@            decreases s.len() - index,
        {
//@            broadcast use {lemma_shr1, lemma_shl1};
//@            assert(wt(s, index as int) >= 0);
            // Maybe descend into the left sub tree.
            let left_index = 2 * index + 1;
            let left_subtotal = self.subtotal(left_index);
            if target_weight < left_subtotal {
                index = left_index;
                continue;
            }
            target_weight -= left_subtotal;

            // Maybe descend into the right sub tree.
            let right_index = 2 * index + 2;
            let right_subtotal = self.subtotal(right_index);
            if target_weight < right_subtotal {
                index = right_index;
                continue;
            }
            target_weight -= right_subtotal;

            // Otherwise we found the index with the target weight.
            break;
        }
        assert!(target_weight >= W::ZERO);
        assert!(target_weight < self.get(index));
        Ok(index)
    }
//@@end

//@@fn subtotal
    fn subtotal(&self, index: usize) -> W
//@ret r
//@        ensures r as int == sub_at(self.subtotals@, index as int)
    {
        if index < self.subtotals.len() {
            self.subtotals[index].clone()
        } else {
            W::ZERO
        }
    }
//@@end

//@@fn sample
    fn sample<R: Rng>(&self, rng: &mut R) -> usize
//@ret r
//@        requires wf(self.subtotals@), total(self.subtotals@) > 0,     // "is_valid() returned true"
//@        ensures r < self.subtotals.len(), wt(self.subtotals@, r as int) > 0,
    {
        self.try_sample(rng).unwrap()
    }
//@@end
}

// ---------------------------------------------------------------- C10: the descent is a bijection
/// every target t in [0, s[idx]) entered at idx lands on a node i in idx's subtree with residual
/// r in [0, wt(i)), and t is determined by (i, r):  base(i) + child_sum(i) + r == base(idx) + t
pub proof fn lemma_descend_rank(s: Seq<W>, idx: int, t: int)
    requires wf(s), 0 <= idx < s.len(), 0 <= t < s[idx],
    ensures ({
        let (i, r) = descend(s, idx, t);
        &&& 0 <= i < s.len() &&& anc(i, idx) &&& 0 <= r < wt(s, i)
        &&& rank(s, i, r) == base(s, idx) + t
    }),
    decreases s.len() - idx,
{
    assert(wt(s, idx) >= 0);
    let l = sub_at(s, 2*idx+1);
    let r = sub_at(s, 2*idx+2);
    if t < l {
        lemma_descend_rank(s, 2*idx+1, t);
        let (i, _r) = descend(s, 2*idx+1, t);
        lemma_anc_parent(i, 2*idx+1);
    } else if t - l < r {
        lemma_descend_rank(s, 2*idx+2, t - l);
        let (i, _r) = descend(s, 2*idx+2, t - l);
        lemma_anc_parent(i, 2*idx+2);
    } else {
        assert(anc(idx, idx));
    }
}

/// for every node i and residual r in [0, wt(i)), the target rank(i,r) - base(a), entered at any
/// ancestor a of i, lands exactly on (i, r)
pub proof fn lemma_rank_descend(s: Seq<W>, i: int, r: int, a: int)
    requires wf(s), 0 <= i < s.len(), 0 <= r < wt(s, i), 0 <= a, anc(i, a),
    ensures
        0 <= rank(s, i, r) - base(s, a) < s[a],
        descend(s, a, rank(s, i, r) - base(s, a)) == (i, r),
    decreases i - a,
{
    lemma_anc_le(i, a);
    assert(wt(s, a) >= 0);
    if a == i {
    } else {
        lemma_anc_children(i, a);
        let c = if anc(i, 2*a+1) { 2*a+1 } else { 2*a+2 };
        lemma_anc_le(i, c);
        lemma_rank_descend(s, i, r, c);
        assert(base(s, c) == (if c == 2*a+1 { base(s, a) } else { base(s, a) + sub_at(s, 2*a+1) }));
    }
}

/// C10 headline: t |-> descend(s,0,t) is a bijection  [0,total)  <->  { (i,r) : 0 <= r < weight(i) },
/// hence exactly weight(i) of the `total` equally likely targets select i.
pub proof fn lemma_descend_bijection(s: Seq<W>)
    requires wf(s),
    ensures
        forall|t: int| 0 <= t < total(s) ==> ({
            let (i, r) = #[trigger] descend(s, 0, t);
            0 <= i < s.len() && 0 <= r < wt(s, i) && rank(s, i, r) == t }),
        forall|i: int, r: int| 0 <= i < s.len() && 0 <= r < wt(s, i) ==>
            0 <= #[trigger] rank(s, i, r) < total(s) && descend(s, 0, rank(s, i, r)) == (i, r),
{
    assert forall|t: int| 0 <= t < total(s) implies ({
            let (i, r) = #[trigger] descend(s, 0, t);
            0 <= i < s.len() && 0 <= r < wt(s, i) && rank(s, i, r) == t }) by {
        lemma_descend_rank(s, 0, t);
    }
    assert forall|i: int, r: int| 0 <= i < s.len() && 0 <= r < wt(s, i) implies
            0 <= #[trigger] rank(s, i, r) < total(s) && descend(s, 0, rank(s, i, r)) == (i, r) by {
        lemma_anc_root(i);
        lemma_rank_descend(s, i, r, 0);
    }
}

// ---------------------------------------------------------------- C09: canonical form
pub proof fn lemma_canonical_at(s: Seq<W>, t: Seq<W>, i: int)
    requires wf(s), wf(t), view(s) == view(t), 0 <= i,
    ensures sub_at(s, i) == sub_at(t, i),
    decreases (if i < s.len() { s.len() - i } else { 0 }),
{
    assert(s.len() == view(s).len() && t.len() == view(t).len());
    if i < s.len() {
        lemma_canonical_at(s, t, 2*i+1);
        lemma_canonical_at(s, t, 2*i+2);
        assert(view(s)[i] == wt(s, i) && view(t)[i] == wt(t, i));
    }
}
/// equal weight lists imply equal (==) structures: any history ends in the state `new(list)` builds
pub proof fn lemma_canonical(s: Seq<W>, t: Seq<W>)
    requires wf(s), wf(t), view(s) == view(t),
    ensures s == t,
{
    assert(s.len() == view(s).len() && t.len() == view(t).len());
    assert forall|i: int| 0 <= i < s.len() implies s[i] == t[i] by { lemma_canonical_at(s, t, i); }
    assert(s =~= t);
}

/// C09 headline, stated on the operations' contracts: after any operation the structure equals the one
/// `new` builds from the resulting list (both are wf with the same view).
pub proof fn lemma_history_equals_fresh(after_ops: Seq<W>, fresh: Seq<W>, list: Seq<int>)
    requires wf(after_ops), view(after_ops) == list, wf(fresh), view(fresh) == list,
    ensures after_ops == fresh, total(after_ops) == total(fresh),
{ lemma_canonical(after_ops, fresh); }

/// total(s) is the sum of the weight list (so is_valid <==> some weight is non-zero)
pub proof fn lemma_subtotal_is_subtree_sum(s: Seq<W>, i: int)
    requires wf(s), 0 <= i,
    ensures sub_at(s, i) == st(view(s), i),
    decreases (if i < s.len() { s.len() - i } else { 0 }),
{
    assert(view(s).len() == s.len());
    if i < s.len() {
        lemma_subtotal_is_subtree_sum(s, 2*i+1);
        lemma_subtotal_is_subtree_sum(s, 2*i+2);
        assert(view(s)[i] == wt(s, i));
    }
}

//@@vacuity

} // verus!
fn main() {}

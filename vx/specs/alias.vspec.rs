// Spec template for /repo/src/weighted/weighted_alias.rs  (property C08 and the alias part of C04/C03)
// Same layout as tree.vspec.rs: `//@@fn` blocks hold the reference copy of the executable text (after the
// stated rewrite rules) with `//@` annotation lines; the executable tokens Verus sees come from /repo.
use vstd::prelude::*;
verus! {

// ------------------------------------------------------------------ prelude (ASSUMED contracts on std / rand, rules R7/R8/R10)
#[derive(PartialEq, Eq, Debug)]
pub enum Error { InvalidInput, InvalidWeight, InsufficientNonZero, Overflow }
type W = TTT;

pub open spec fn seq_sum(w: Seq<W>, upto: int) -> int decreases upto {
    if upto <= 0 { 0 } else { seq_sum(w, upto - 1) + w[upto - 1] as int }
}

pub trait AliasableWeight: Sized + Copy {
    const MAX: Self;
    const ZERO: Self;
    fn try_from_u32_lossy(n: u32) -> (r: Option<Self>);
}
impl AliasableWeight for TTT {
    const MAX: Self = TTT::MAX;
    const ZERO: Self = 0;
//@@fn try_from_u32_lossy
    fn try_from_u32_lossy(n: u32) -> Option<Self>
//@ret r
//@        ensures r == (if n as int <= TTT::MAX as int { Some(n as TTT) } else { None::<TTT> })
    {
        let n_converted = n as Self;
        if n_converted >= Self::ZERO && n_converted as u32 == n {
            Some(n_converted)
        } else {
            None
        }
    }
//@@end
}
/// R8: `AliasableWeight::sum(slice)` = iterator sum; std panics on overflow in debug builds
#[verifier::external_body]
pub fn weight_sum_of(values: &[W]) -> (r: W)
    requires seq_sum(values@, values@.len() as int) <= TTT::MAX
    ensures r as int == seq_sum(values@, values@.len() as int)
{ values.iter().copied().sum() }

/// R8: `v.iter().all(|&w| P(w))`  (assumed: true iff the closure returns true on every element)
#[verifier::external_body]
pub fn vec_all<F: Fn(W) -> bool>(v: &Vec<W>, f: F) -> (r: bool)
    requires forall|x: W| f.requires((x,)),
    ensures r ==> (forall|i: int| 0 <= i < v@.len() ==> f.ensures((#[trigger] v@[i],), true)),
            !r ==> (exists|i: int| 0 <= i < v@.len() && f.ensures((#[trigger] v@[i],), false)),
{ v.iter().all(|&w| f(w)) }

#[verifier::external_body]
pub fn into_boxed_slice(v: Vec<W>) -> (r: Box<[W]>) ensures r@ == v@ { v.into_boxed_slice() }
#[verifier::external_body]
pub fn boxed_zeros(n: usize) -> (r: Box<[u32]>)
    ensures r@.len() == n, forall|i: int| 0 <= i < n ==> r@[i] == 0
{ vec![0; n].into_boxed_slice() }

#[derive(Clone, Copy)]
pub struct Uniform<T> { pub lo: T, pub hi: T }
#[verifier::external_body]
pub fn uniform_new_u32(lo: u32, hi: u32) -> (r: Result<Uniform<u32>, Error>)
    ensures lo < hi ==> (r matches Ok(u) && u.lo == lo && u.hi == hi)
{ Ok(Uniform { lo, hi }) }
#[verifier::external_body]
pub fn uniform_new_w(lo: W, hi: W) -> (r: Result<Uniform<W>, Error>)
    ensures lo < hi ==> (r matches Ok(u) && u.lo == lo && u.hi == hi)
{ Ok(Uniform { lo, hi }) }


/// R7: rand's `Rng::sample(distr)` for the two uniform samplers used here; assumed contract: lo <= r < hi
pub trait Dist { type Out; spec fn lo_(&self) -> int; spec fn hi_(&self) -> int; spec fn val(o: Self::Out) -> int; }
impl Dist for Uniform<u32> { type Out = u32; open spec fn lo_(&self) -> int { self.lo as int } open spec fn hi_(&self) -> int { self.hi as int } open spec fn val(o: u32) -> int { o as int } }
impl Dist for &Uniform<W> { type Out = W; open spec fn lo_(&self) -> int { self.lo as int } open spec fn hi_(&self) -> int { self.hi as int } open spec fn val(o: W) -> int { o as int } }
pub trait Rng {
    /// ghost history of the values handed out
    spec fn draws(&self) -> Seq<int>;
    fn sample<D: Dist>(&mut self, distr: D) -> (r: D::Out)
        requires distr.lo_() < distr.hi_(),
        ensures distr.lo_() <= D::val(r) < distr.hi_(), final(self).draws() == old(self).draws().push(D::val(r));
}
/// R10: `a.iter().zip(&b).map(|(&x, &y)| f(x, y)).collect()`  (assumed: element-wise application)
#[verifier::external_body]
pub fn zip_map<F: Fn(W, W) -> W>(a: &Box<[W]>, b: &Vec<W>, f: F) -> (r: Vec<W>)
    requires a@.len() == b@.len(), forall|i: int| 0 <= i < a@.len() ==> f.requires((#[trigger] a@[i], b@[i])),
    ensures r@.len() == a@.len(), forall|i: int| 0 <= i < a@.len() ==> f.ensures((a@[i], b@[i]), #[trigger] r@[i]),
{ a.iter().zip(b).map(|(&x, &y)| f(x, y)).collect() }
#[verifier::external_body]
pub fn vec_zeros(n: usize) -> (r: Vec<W>)
    ensures r@.len() == n, forall|i: int| 0 <= i < n ==> (#[trigger] r@[i]) == 0
{ vec![0; n] }

// ------------------------------------------------------------------ specs
pub open spec fn isum(f: spec_fn(int) -> int, n: int) -> int decreases n {
    if n <= 0 { 0 } else { isum(f, n - 1) + f(n - 1) }
}
pub proof fn lemma_isum_ext(f: spec_fn(int) -> int, g: spec_fn(int) -> int, n: int)
    requires forall|j: int| 0 <= j < n ==> #[trigger] f(j) == g(j)
    ensures isum(f, n) == isum(g, n)
    decreases n
{ if n > 0 { lemma_isum_ext(f, g, n - 1); } }
pub proof fn lemma_isum_update(f: spec_fn(int) -> int, g: spec_fn(int) -> int, n: int, p: int)
    requires 0 <= p < n, forall|j: int| 0 <= j < n && j != p ==> #[trigger] f(j) == g(j)
    ensures isum(g, n) == isum(f, n) - f(p) + g(p)
    decreases n
{
    if n - 1 == p { lemma_isum_ext(f, g, n - 1); } else { lemma_isum_update(f, g, n - 1, p); }
}
pub proof fn lemma_isum_update2(f: spec_fn(int) -> int, g: spec_fn(int) -> int, n: int, p: int, q: int)
    requires 0 <= p < n, 0 <= q < n, p != q, forall|j: int| 0 <= j < n && j != p && j != q ==> #[trigger] f(j) == g(j)
    ensures isum(g, n) == isum(f, n) - f(p) + g(p) - f(q) + g(q)
{
    let h = |j: int| if j == p { g(j) } else { f(j) };
    lemma_isum_update(f, h, n, p);
    lemma_isum_update(h, g, n, q);
}
/// all terms >= 0 and the sum is 0  ==>  every term is 0
pub proof fn lemma_isum_zero(f: spec_fn(int) -> int, n: int, p: int)
    requires forall|j: int| 0 <= j < n ==> #[trigger] f(j) >= 0, isum(f, n) == 0, 0 <= p < n
    ensures f(p) == 0
    decreases n
{
    lemma_isum_nonneg(f, n - 1);
    if p < n - 1 { lemma_isum_zero(f, n - 1, p); }
}
pub proof fn lemma_isum_nonneg(f: spec_fn(int) -> int, n: int)
    requires forall|j: int| 0 <= j < n ==> #[trigger] f(j) >= 0
    ensures isum(f, n) >= 0
    decreases n
{ if n > 0 { lemma_isum_nonneg(f, n - 1); } }
/// all terms <= 0 and one term < 0  ==>  sum < 0
pub proof fn lemma_isum_neg(f: spec_fn(int) -> int, n: int, p: int)
    requires forall|j: int| 0 <= j < n ==> #[trigger] f(j) <= 0, 0 <= p < n, f(p) < 0
    ensures isum(f, n) < 0
    decreases n
{
    let g = |j: int| -f(j);
    if p == n - 1 {
        assert forall|j: int| 0 <= j < n - 1 implies #[trigger] g(j) >= 0 by { assert(f(j) <= 0); }
        lemma_isum_nonneg(g, n - 1);
        lemma_isum_negate(f, n - 1);
    } else { lemma_isum_neg(f, n - 1, p); }
}
pub proof fn lemma_isum_negate(f: spec_fn(int) -> int, n: int)
    ensures isum(|j: int| -f(j), n) == -isum(f, n)
    decreases n
{
    if n > 0 {
        lemma_isum_negate(f, n - 1);
        assert(isum(|j: int| -f(j), n) == isum(|j: int| -f(j), n - 1) + (-f(n - 1)));
    }
}
pub proof fn lemma_isum_linear(f: spec_fn(int) -> int, g: spec_fn(int) -> int, c: int, n: int)
    ensures isum(|j: int| f(j) - c * g(j), n) == isum(f, n) - c * isum(g, n)
    decreases n
{
    if n > 0 {
        lemma_isum_linear(f, g, c, n - 1);
        assert(isum(|j: int| f(j) - c * g(j), n) == isum(|j: int| f(j) - c * g(j), n - 1) + (f(n - 1) - c * g(n - 1)));
        assert(c * isum(g, n) == c * isum(g, n - 1) + c * g(n - 1)) by (nonlinear_arith)
            requires isum(g, n) == isum(g, n - 1) + g(n - 1);
    }
}

/// intrusive singly linked list threaded through `a`, front = head
pub open spec fn list_ok(a: Seq<u32>, head: u32, l: Seq<u32>, n: int) -> bool {
    &&& (l.len() == 0 ==> head == u32::MAX)
    &&& (l.len() > 0 ==> head == l[0])
    &&& forall|k: int| 0 <= k < l.len() ==> (#[trigger] l[k]) < n
    &&& forall|k: int| 0 <= k < l.len() - 1 ==> a[(#[trigger] l[k]) as int] == l[k + 1]
    &&& (l.len() > 0 ==> a[l[l.len() - 1] as int] == u32::MAX)
    &&& forall|k: int, m: int| 0 <= k < m < l.len() ==> l[k] != l[m]
}
pub open spec fn not_in(l: Seq<u32>, x: int) -> bool { forall|k: int| 0 <= k < l.len() ==> (#[trigger] l[k]) as int != x }

pub proof fn lemma_list_frame(a: Seq<u32>, head: u32, l: Seq<u32>, n: int, idx: int, v: u32)
    requires list_ok(a, head, l, n), not_in(l, idx), 0 <= idx < a.len(), n <= a.len()
    ensures list_ok(a.update(idx, v), head, l, n)
{
    let a2 = a.update(idx, v);
    assert forall|k: int| 0 <= k < l.len() - 1 implies a2[(#[trigger] l[k]) as int] == l[k + 1] by { assert(l[k] as int != idx); }
}
pub proof fn lemma_list_push(a: Seq<u32>, head: u32, l: Seq<u32>, n: int, idx: u32)
    requires list_ok(a, head, l, n), not_in(l, idx as int), idx < n, n <= a.len(), n <= u32::MAX
    ensures list_ok(a.update(idx as int, head), idx, seq![idx] + l, n), (seq![idx] + l).len() == l.len() + 1
{
    let a2 = a.update(idx as int, head);
    let l2 = seq![idx] + l;
    assert forall|k: int| 0 <= k < l2.len() implies (#[trigger] l2[k]) < n by { if k > 0 { assert(l2[k] == l[k - 1]); } }
    assert forall|k: int| 0 <= k < l2.len() - 1 implies a2[(#[trigger] l2[k]) as int] == l2[k + 1] by {
        if k == 0 { if l.len() > 0 { assert(l2[1] == l[0]); } }
        else { assert(l2[k] == l[k - 1]); assert(l2[k + 1] == l[k]); assert(l[k - 1] as int != idx as int); }
    }
    if l.len() > 0 { assert(l2[l2.len() - 1] == l[l.len() - 1]); assert(l[l.len() - 1] as int != idx as int); }
    assert forall|k: int, m: int| 0 <= k < m < l2.len() implies l2[k] != l2[m] by {
        assert(l2[m] == l[m - 1]);
        if k > 0 { assert(l2[k] == l[k - 1]); } else { assert(l[m - 1] as int != idx as int); }
    }
}
pub proof fn lemma_list_pop(a: Seq<u32>, head: u32, l: Seq<u32>, n: int)
    requires list_ok(a, head, l, n), l.len() > 0, n <= u32::MAX
    ensures list_ok(a, a[head as int], l.drop_first(), n), head == l[0], head < n, not_in(l.drop_first(), head as int)
{
    let l2 = l.drop_first();
    assert forall|k: int| 0 <= k < l2.len() implies (#[trigger] l2[k]) < n by { assert(l2[k] == l[k + 1]); }
    assert forall|k: int| 0 <= k < l2.len() - 1 implies a[(#[trigger] l2[k]) as int] == l2[k + 1] by { assert(l2[k] == l[k + 1]); assert(l2[k + 1] == l[k + 2]); }
    if l2.len() > 0 { assert(l2[l2.len() - 1] == l[l.len() - 1]); assert(a[l[0] as int] == l[1]); assert(l2[0] == l[1]); }
    assert forall|k: int, m: int| 0 <= k < m < l2.len() implies l2[k] != l2[m] by { assert(l2[k] == l[k + 1]); assert(l2[m] == l[m + 1]); }
    assert forall|k: int| 0 <= k < l2.len() implies (#[trigger] l2[k]) as int != head as int by { assert(l2[k] == l[k + 1]); }
}

// ------------------------------------------------------------------ Aliases (fn-local item hoisted by rule R6; method text from /repo)
pub struct Aliases {
    pub aliases: Box<[u32]>,
    pub smalls_head: u32,
    pub bigs_head: u32,
}

impl Aliases {
//@@fn aliases_new
    fn new(size: u32) -> Self
//@ret r
//@        ensures r.aliases@.len() == size, r.smalls_head == u32::MAX, r.bigs_head == u32::MAX,
    {
        Aliases {
            aliases: boxed_zeros(size as usize),
            smalls_head: u32::MAX,
            bigs_head: u32::MAX,
        }
    }
//@@end

//@@fn push_small
    fn push_small(&mut self, idx: u32)
//@        requires idx < old(self).aliases@.len(),
//@        ensures final(self).aliases@ == old(self).aliases@.update(idx as int, old(self).smalls_head),
//@                final(self).smalls_head == idx, final(self).bigs_head == old(self).bigs_head,
    {
        self.aliases[idx as usize] = self.smalls_head;
        self.smalls_head = idx;
    }
//@@end

//@@fn push_big
    fn push_big(&mut self, idx: u32)
//@        requires idx < old(self).aliases@.len(),
//@        ensures final(self).aliases@ == old(self).aliases@.update(idx as int, old(self).bigs_head),
//@                final(self).bigs_head == idx, final(self).smalls_head == old(self).smalls_head,
    {
        self.aliases[idx as usize] = self.bigs_head;
        self.bigs_head = idx;
    }
//@@end

//@@fn pop_small
    fn pop_small(&mut self) -> u32
//@ret popped
//@        requires old(self).smalls_head < old(self).aliases@.len(),
//@        ensures popped == old(self).smalls_head, final(self).smalls_head == old(self).aliases@[popped as int],
//@                final(self).aliases@ == old(self).aliases@, final(self).bigs_head == old(self).bigs_head,
    {
        let popped = self.smalls_head;
        self.smalls_head = self.aliases[popped as usize];
        popped
    }
//@@end

//@@fn pop_big
    fn pop_big(&mut self) -> u32
//@ret popped
//@        requires old(self).bigs_head < old(self).aliases@.len(),
//@        ensures popped == old(self).bigs_head, final(self).bigs_head == old(self).aliases@[popped as int],
//@                final(self).aliases@ == old(self).aliases@, final(self).smalls_head == old(self).smalls_head,
    {
        let popped = self.bigs_head;
        self.bigs_head = self.aliases[popped as usize];
        popped
    }
//@@end

//@@fn smalls_is_empty
    fn smalls_is_empty(&self) -> bool
//@ret r
//@        ensures r == (self.smalls_head == u32::MAX)
    {
        self.smalls_head == u32::MAX
    }
//@@end

//@@fn bigs_is_empty
    fn bigs_is_empty(&self) -> bool
//@ret r
//@        ensures r == (self.bigs_head == u32::MAX)
    {
        self.bigs_head == u32::MAX
    }
//@@end

//@@fn set_alias
    fn set_alias(&mut self, idx: u32, alias: u32)
//@        requires idx < old(self).aliases@.len(),
//@        ensures final(self).aliases@ == old(self).aliases@.update(idx as int, alias),
//@                final(self).smalls_head == old(self).smalls_head, final(self).bigs_head == old(self).bigs_head,
    {
        self.aliases[idx as usize] = alias;
    }
//@@end
}


// ------------------------------------------------------------------ table invariant
pub struct WeightedAliasIndex {
    pub aliases: Box<[u32]>,
    pub no_alias_odds: Box<[W]>,
    pub uniform_index: Uniform<u32>,
    pub uniform_within_weight_sum: Uniform<W>,
    pub weight_sum: W,
}

pub open spec fn t_final_contrib(a: Seq<u32>, o: Seq<W>, s: int, i: int) -> spec_fn(int) -> int {
    |j: int| if (o[j] as int) < s && a[j] as int == i { s - o[j] as int } else { 0 }
}
/// the alias table encodes the weight vector w exactly (mass conservation per index)
pub open spec fn table_ok(t: WeightedAliasIndex, w: Seq<W>) -> bool {
    let n = w.len() as int; let o = t.no_alias_odds@; let a = t.aliases@; let s = t.weight_sum as int;
    &&& 0 < n <= u32::MAX && n <= TTT::MAX && o.len() == n && a.len() == n
    &&& s == seq_sum(w, n) && s > 0
    &&& forall|i: int| 0 <= i < n ==> 0 <= #[trigger] w[i] as int && n * (w[i] as int) <= TTT::MAX
    &&& t.uniform_index.lo == 0 && t.uniform_index.hi == n
    &&& t.uniform_within_weight_sum.lo == 0 && t.uniform_within_weight_sum.hi == s
    &&& forall|j: int| 0 <= j < n ==> 0 <= (#[trigger] o[j]) as int <= s && ((o[j] as int) < s ==> (a[j] as int) < n)
    &&& forall|i: int| 0 <= i < n ==> (#[trigger] o[i]) as int + isum(t_final_contrib(a, o, s, i), n) == n * (w[i] as int)
}

// status: 0 = in smalls list, 1 = in bigs list, 2 = finalised (alias set)
pub open spec fn t_listed_odds(o: Seq<W>, st: Seq<int>) -> spec_fn(int) -> int { |j: int| if st[j] != 2 { o[j] as int } else { 0 } }
pub open spec fn t_listed_cnt(st: Seq<int>) -> spec_fn(int) -> int { |j: int| if st[j] != 2 { 1int } else { 0 } }
pub open spec fn t_cnt(st: Seq<int>, v: int) -> spec_fn(int) -> int { |j: int| if st[j] == v { 1int } else { 0 } }
pub open spec fn t_contrib(a: Seq<u32>, o: Seq<W>, st: Seq<int>, s: int, i: int) -> spec_fn(int) -> int {
    |j: int| if st[j] == 2 && a[j] as int == i { s - o[j] as int } else { 0 }
}

pub open spec fn pair_inv(n: int, w: Seq<W>, s: int, o: Seq<W>, a: Seq<u32>, sh: u32, bh: u32,
                          smalls: Seq<u32>, bigs: Seq<u32>, st: Seq<int>) -> bool {
    &&& 0 < n <= u32::MAX && w.len() == n && o.len() == n && a.len() == n && st.len() == n
    &&& s > 0
    &&& list_ok(a, sh, smalls, n) && list_ok(a, bh, bigs, n)
    &&& forall|k: int| 0 <= k < smalls.len() ==> st[(#[trigger] smalls[k]) as int] == 0
    &&& forall|k: int| 0 <= k < bigs.len() ==> st[(#[trigger] bigs[k]) as int] == 1
    &&& isum(t_cnt(st, 0), n) == smalls.len() && isum(t_cnt(st, 1), n) == bigs.len()
    &&& forall|j: int| 0 <= j < n ==> 0 <= #[trigger] st[j] <= 2
    &&& forall|j: int| 0 <= j < n ==> 0 <= (#[trigger] o[j] as int)
    &&& forall|j: int| 0 <= j < n ==> (st[j] == 0 ==> (#[trigger] o[j] as int) <= s)
    &&& forall|j: int| 0 <= j < n ==> (st[j] == 1 ==> (#[trigger] o[j] as int) >= s)
    &&& forall|j: int| 0 <= j < n ==> (st[j] == 2 ==> (#[trigger] o[j] as int) <= s && (a[j] as int) < n)
    &&& isum(t_listed_odds(o, st), n) == s * isum(t_listed_cnt(st), n)
    &&& forall|i: int| 0 <= i < n ==> (#[trigger] o[i]) as int + isum(t_contrib(a, o, st, s, i), n) == n * (w[i] as int)
}

impl WeightedAliasIndex {
//@@fn new
    pub fn new(weights: Vec<W>) -> Result<Self, Error>
//@ret res
//@        ensures
//@            res matches Ok(t) ==> table_ok(t, weights@),
//@            res matches Err(e) ==> ({
//@                let n = weights@.len() as int;
//@                let bad_len = n == 0 || n > u32::MAX;
//@                let bad_w = exists|i: int| 0 <= i < n && ((#[trigger] weights@[i]) as int > (TTT::MAX as int) / n || weights@[i] < 0);
//@                &&& (e == Error::InvalidInput <==> bad_len)
//@                &&& (e == Error::InvalidWeight <==> !bad_len && bad_w)
//@                &&& (e == Error::InsufficientNonZero <==> !bad_len && !bad_w && seq_sum(weights@, n) == 0)
//@                &&& (e == Error::InvalidInput || e == Error::InvalidWeight || e == Error::InsufficientNonZero)
//@            }),
//@            res is Ok <==> (0 < weights@.len() <= u32::MAX
//@                && (forall|i: int| 0 <= i < weights@.len() ==> 0 <= (#[trigger] weights@[i]) as int <= (TTT::MAX as int) / (weights@.len() as int))
//@                && seq_sum(weights@, weights@.len() as int) > 0),
    {
        let n = weights.len();
        if n == 0 || n > u32::MAX as usize {
            return Err(Error::InvalidInput);
        }
        let n = n as u32;

        let max_weight_size = W::try_from_u32_lossy(n)
            .map(|n: W| -> (r: W) requires n > 0 ensures r == W::MAX / n { W::MAX / n })
            .unwrap_or(W::ZERO);
//@        proof {
//@            if n as int > TTT::MAX as int { assert((TTT::MAX as int) / (n as int) == 0) by (nonlinear_arith) requires n as int > TTT::MAX as int, TTT::MAX as int >= 0; }
//@            assert(max_weight_size as int == (TTT::MAX as int) / (n as int));
//@        }
        if !vec_all(&weights, |w: W| -> (r_: bool) ensures r_ == (W::ZERO <= w && w <= max_weight_size) { W::ZERO <= w && w <= max_weight_size })
        {
            return Err(Error::InvalidWeight);
        }
//@        let ghost w = weights@;
//@        let ghost nn = n as int;
//@        proof { lemma_sum_bound(w, nn, max_weight_size as int); assert(nn * (max_weight_size as int) <= TTT::MAX) by (nonlinear_arith) requires max_weight_size as int == (TTT::MAX as int) / nn, nn > 0; }

        // The sum of weights will represent 100% of no alias odds.
        let weight_sum = weight_sum_of(weights.as_slice());
        // Prevent floating point overflow due to rounding errors.
        let weight_sum = if weight_sum > W::MAX {
            W::MAX
        } else {
            weight_sum
        };
        if weight_sum == W::ZERO {
            return Err(Error::InsufficientNonZero);
        }
//@        let ghost gs = weight_sum as int;
//@        proof { lemma_seq_sum_nonneg(w, nn); }

        // `weight_sum` would have been zero if `try_from_lossy` causes an error here.
//@        proof { if nn > TTT::MAX as int { lemma_sum_bound(w, nn, 0); } }
        let n_converted = W::try_from_u32_lossy(n).unwrap();

        let mut no_alias_odds = into_boxed_slice(weights);
//@        proof {
//@            assert(max_weight_size as int == (TTT::MAX as int) / nn);
//@            assert forall|j: int| 0 <= j < nn implies (#[trigger] w[j]) as int * nn <= TTT::MAX by {
//@                assert(w[j] <= max_weight_size);
//@                assert(w[j] as int * nn <= TTT::MAX) by (nonlinear_arith)
//@                    requires 0 <= w[j] as int <= (TTT::MAX as int) / nn, nn > 0;
//@            }
//@        }
        let len_ = no_alias_odds.len();
//@        assert(len_ == nn);
        for i_ in 0..len_
//@            invariant
//@                no_alias_odds@.len() == nn, w.len() == nn, n_converted == nn, nn > 0, len_ == nn,
//@                forall|j: int| 0 <= j < nn ==> 0 <= (#[trigger] w[j]) as int && w[j] as int * nn <= TTT::MAX,
//@                forall|j: int| 0 <= j < i_ ==> (#[trigger] no_alias_odds@[j]) as int == w[j] as int * nn,
//@                forall|j: int| i_ <= j < nn ==> (#[trigger] no_alias_odds@[j]) == w[j],
        {
//@            assert(w[i_ as int] as int * nn <= TTT::MAX);
//@            assert(0 <= w[i_ as int] as int * nn) by (nonlinear_arith) requires 0 <= w[i_ as int] as int, nn > 0;
            no_alias_odds[i_] *= n_converted;
            // Prevent floating point overflow due to rounding errors.
            no_alias_odds[i_] = if no_alias_odds[i_] > W::MAX { W::MAX } else { no_alias_odds[i_] };
        }
//@        let ghost o0 = no_alias_odds@;
//@        assert(forall|j: int| 0 <= j < nn ==> (#[trigger] o0[j]) as int == w[j] as int * nn);
//@        assert forall|j: int| 0 <= j < nn implies 0 <= (#[trigger] o0[j]) as int by {
//@            assert(0 <= w[j] as int * nn) by (nonlinear_arith) requires 0 <= w[j] as int, nn > 0;
//@        }

        let mut aliases = Aliases::new(n);
//@        let ghost mut smalls: Seq<u32> = Seq::empty();
//@        let ghost mut bigs: Seq<u32> = Seq::empty();
//@        let ghost mut st: Seq<int> = Seq::new(nn as nat, |j: int| 3int);   // 3 = not yet classified

        // Split indices into those with small weights and those with big weights.
//@        proof {
//@            lemma_isum_zero_fn(t_cnt(st, 0), nn);
//@            lemma_isum_zero_fn(t_cnt(st, 1), nn);
//@        }
        let len2_ = no_alias_odds.len();
        for index in 0..len2_
//@            invariant
//@                len2_ == nn, 0 < nn <= u32::MAX, n == nn, gs == weight_sum as int, no_alias_odds@ == o0, o0.len() == nn, st.len() == nn, aliases.aliases@.len() == nn,
//@                list_ok(aliases.aliases@, aliases.smalls_head, smalls, nn), list_ok(aliases.aliases@, aliases.bigs_head, bigs, nn),
//@                forall|k: int| 0 <= k < smalls.len() ==> st[(#[trigger] smalls[k]) as int] == 0,
//@                forall|k: int| 0 <= k < bigs.len() ==> st[(#[trigger] bigs[k]) as int] == 1,
//@                isum(t_cnt(st, 0), nn) == smalls.len(), isum(t_cnt(st, 1), nn) == bigs.len(),
//@                forall|j: int| 0 <= j < index ==> (#[trigger] st[j] == 0 || st[j] == 1),
//@                forall|j: int| index <= j < nn ==> #[trigger] st[j] == 3,
//@                forall|j: int| 0 <= j < nn ==> (st[j] == 0 ==> (#[trigger] o0[j] as int) <= gs),
//@                forall|j: int| 0 <= j < nn ==> (st[j] == 1 ==> (#[trigger] o0[j] as int) >= gs),
        {
            let odds = no_alias_odds[index];
//@            let ghost a_before = aliases.aliases@;
//@            let ghost st_before = st;
//@            proof {
//@                assert(not_in(smalls, index as int)) by { assert forall|k: int| 0 <= k < smalls.len() implies (#[trigger] smalls[k]) as int != index as int by { assert(st[smalls[k] as int] == 0); } }
//@                assert(not_in(bigs, index as int)) by { assert forall|k: int| 0 <= k < bigs.len() implies (#[trigger] bigs[k]) as int != index as int by { assert(st[bigs[k] as int] == 1); } }
//@            }
            if odds < weight_sum {
                aliases.push_small(index as u32);
//@                proof {
//@                    lemma_list_push(a_before, old_head_s(aliases.aliases@, index as int), smalls, nn, index as u32);
//@                    lemma_list_frame(a_before, aliases.bigs_head, bigs, nn, index as int, aliases.aliases@[index as int]);
//@                    st = st.update(index as int, 0);
//@                    lemma_isum_update(t_cnt(st_before, 0), t_cnt(st, 0), nn, index as int);
//@                    lemma_isum_update(t_cnt(st_before, 1), t_cnt(st, 1), nn, index as int);
//@                    let sm2 = seq![index as u32] + smalls;
//@                    assert forall|k: int| 0 <= k < sm2.len() implies st[(#[trigger] sm2[k]) as int] == 0 by { if k > 0 { assert(sm2[k] == smalls[k - 1]); assert(st_before[smalls[k - 1] as int] == 0); } }
//@                    assert forall|k: int| 0 <= k < bigs.len() implies st[(#[trigger] bigs[k]) as int] == 1 by { assert(st_before[bigs[k] as int] == 1); }
//@                    smalls = sm2;
//@                }
            } else {
                aliases.push_big(index as u32);
//@                proof {
//@                    lemma_list_push(a_before, old_head_s(aliases.aliases@, index as int), bigs, nn, index as u32);
//@                    lemma_list_frame(a_before, aliases.smalls_head, smalls, nn, index as int, aliases.aliases@[index as int]);
//@                    st = st.update(index as int, 1);
//@                    lemma_isum_update(t_cnt(st_before, 0), t_cnt(st, 0), nn, index as int);
//@                    lemma_isum_update(t_cnt(st_before, 1), t_cnt(st, 1), nn, index as int);
//@                    let bg2 = seq![index as u32] + bigs;
//@                    assert forall|k: int| 0 <= k < bg2.len() implies st[(#[trigger] bg2[k]) as int] == 1 by { if k > 0 { assert(bg2[k] == bigs[k - 1]); assert(st_before[bigs[k - 1] as int] == 1); } }
//@                    assert forall|k: int| 0 <= k < smalls.len() implies st[(#[trigger] smalls[k]) as int] == 0 by { assert(st_before[smalls[k] as int] == 0); }
//@                    bigs = bg2;
//@                }
            }
        }
//@        proof {
//@            // establish pair_inv
//@            assert forall|i: int| 0 <= i < nn implies (#[trigger] o0[i]) as int + isum(t_contrib(aliases.aliases@, o0, st, gs, i), nn) == nn * (w[i] as int) by {
//@                lemma_isum_zero_fn(t_contrib(aliases.aliases@, o0, st, gs, i), nn);
//@                assert(w[i] as int * nn == nn * (w[i] as int)) by (nonlinear_arith);
//@            }
//@            lemma_isum_scaled(w, t_listed_odds(o0, st), nn, nn);
//@            lemma_isum_const(t_listed_cnt(st), nn, 1);
//@            assert(nn * gs == gs * (nn * 1)) by (nonlinear_arith);
//@            assert(pair_inv(nn, w, gs, o0, aliases.aliases@, aliases.smalls_head, aliases.bigs_head, smalls, bigs, st));
//@        }

        // Build the alias map by finding an alias with big weight for each index with
        // small weight.
        while !aliases.smalls_is_empty() && !aliases.bigs_is_empty()
//@            invariant
//@                pair_inv(nn, w, gs, no_alias_odds@, aliases.aliases@, aliases.smalls_head, aliases.bigs_head, smalls, bigs, st),
//@                gs == weight_sum as int, n == nn,
//@            decreases smalls.len() + bigs.len(),
        {
//@            let ghost o_pre = no_alias_odds@; let ghost a_pre = aliases.aliases@;
//@            let ghost sh_pre = aliases.smalls_head; let ghost bh_pre = aliases.bigs_head;
//@            proof {
//@                lemma_list_pop(a_pre, sh_pre, smalls, nn);
//@                lemma_list_pop(a_pre, bh_pre, bigs, nn);
//@                assert(st[smalls[0] as int] == 0 && st[bigs[0] as int] == 1);
//@                assert((o_pre[smalls[0] as int] as int) <= gs && (o_pre[bigs[0] as int] as int) >= gs);
//@                assert(0 <= o_pre[smalls[0] as int] as int);
//@            }
            let s = aliases.pop_small();
            let b = aliases.pop_big();

            aliases.set_alias(s, b);
            no_alias_odds[b as usize] =
                no_alias_odds[b as usize] - weight_sum + no_alias_odds[s as usize];

            if no_alias_odds[b as usize] < weight_sum {
                aliases.push_small(b);
//@                proof {
//@                    lemma_pair_step(nn, w, gs, o_pre, a_pre, sh_pre, bh_pre, smalls, bigs, st, true);
//@                    st = st.update(s as int, 2).update(b as int, 0);
//@                    smalls = seq![b] + smalls.drop_first();
//@                    bigs = bigs.drop_first();
//@                }
            } else {
                aliases.push_big(b);
//@                proof {
//@                    lemma_pair_step(nn, w, gs, o_pre, a_pre, sh_pre, bh_pre, smalls, bigs, st, false);
//@                    st = st.update(s as int, 2);
//@                    smalls = smalls.drop_first();
//@                    bigs = seq![b] + bigs.drop_first();
//@                }
            }
        }

//@        proof {
//@            lemma_pair_exit(nn, w, gs, no_alias_odds@, aliases.aliases@, aliases.smalls_head, aliases.bigs_head, smalls, bigs, st);
//@        }
        // The remaining indices should have no alias odds of about 100%. This is due to
        // numeric accuracy. Otherwise they would be exactly 100%.
//@        let ghost o_fin = no_alias_odds@;
//@        let ghost a_fin = aliases.aliases@;
//@        let ghost bh_fin = aliases.bigs_head;
        while !aliases.smalls_is_empty()
//@            invariant
//@                no_alias_odds@ == o_fin, aliases.aliases@ == a_fin, aliases.bigs_head == bh_fin,
//@                o_fin.len() == nn, a_fin.len() == nn, 0 < nn <= u32::MAX, gs == weight_sum as int,
//@                list_ok(a_fin, aliases.smalls_head, smalls, nn),
//@                forall|k: int| 0 <= k < smalls.len() ==> (#[trigger] o_fin[smalls[k] as int]) as int == gs,
//@            decreases smalls.len(),
        {
//@            proof { lemma_list_pop(a_fin, aliases.smalls_head, smalls, nn); }
            no_alias_odds[aliases.pop_small() as usize] = weight_sum;
//@            proof {
//@                assert(o_fin[smalls[0] as int] as int == gs);
//@                assert(no_alias_odds@ =~= o_fin);
//@                let sm1 = smalls.drop_first();
//@                assert forall|k: int| 0 <= k < sm1.len() implies (#[trigger] o_fin[sm1[k] as int]) as int == gs by { assert(sm1[k] == smalls[k + 1]); }
//@                smalls = sm1;
//@            }
        }
        while !aliases.bigs_is_empty()
//@            invariant
//@                no_alias_odds@ == o_fin, aliases.aliases@ == a_fin, o_fin.len() == nn, a_fin.len() == nn, 0 < nn <= u32::MAX, gs == weight_sum as int,
//@                list_ok(a_fin, aliases.bigs_head, bigs, nn),
//@                forall|k: int| 0 <= k < bigs.len() ==> (#[trigger] o_fin[bigs[k] as int]) as int == gs,
//@            decreases bigs.len(),
        {
//@            proof { lemma_list_pop(a_fin, aliases.bigs_head, bigs, nn); }
            no_alias_odds[aliases.pop_big() as usize] = weight_sum;
//@            proof {
//@                assert(o_fin[bigs[0] as int] as int == gs);
//@                assert(no_alias_odds@ =~= o_fin);
//@                let bg1 = bigs.drop_first();
//@                assert forall|k: int| 0 <= k < bg1.len() implies (#[trigger] o_fin[bg1[k] as int]) as int == gs by { assert(bg1[k] == bigs[k + 1]); }
//@                bigs = bg1;
//@            }
        }

        // Prepare distributions for sampling. Creating them beforehand improves
        // sampling performance.
        let uniform_index = uniform_new_u32(0, n).unwrap();
        let uniform_within_weight_sum = uniform_new_w(W::ZERO, weight_sum).unwrap();

//@        proof {
//@            assert forall|i: int| 0 <= i < nn implies nn * (#[trigger] w[i] as int) <= TTT::MAX by {
//@                assert(w[i] as int * nn <= TTT::MAX);
//@                assert(w[i] as int * nn == nn * (w[i] as int)) by (nonlinear_arith);
//@            }
//@            assert forall|i: int| 0 <= i < nn implies (#[trigger] o_fin[i]) as int + isum(t_final_contrib(a_fin, o_fin, gs, i), nn) == nn * (w[i] as int) by {
//@                lemma_isum_ext(t_final_contrib(a_fin, o_fin, gs, i), t_contrib(a_fin, o_fin, st, gs, i), nn);
//@            }
//@        }
        Ok(Self {
            aliases: aliases.aliases,
            no_alias_odds,
            uniform_index,
            uniform_within_weight_sum,
            weight_sum,
        })
    }
//@@end

//@@fn weights
    pub fn weights(&self) -> Vec<W>
//@param Ghost(w): Ghost<Seq<W>>
//@ret r
//@        requires table_ok(*self, w),
//@        ensures r@ == w,
    {
        let n = self.aliases.len();
//@        let ghost nn = n as int; let ghost s = self.weight_sum as int;
//@        let ghost o = self.no_alias_odds@; let ghost a = self.aliases@;

        // `n` was validated in the constructor.
        let n_converted = W::try_from_u32_lossy(n as u32).unwrap();

        // pre-calculate the total contribution each index receives from serving
        // as an alias for other indices.
        let mut alias_contributions = vec_zeros(n);
        for j in 0..n
//@            invariant
//@                table_ok(*self, w), nn == n, nn == w.len(), s == self.weight_sum as int, o == self.no_alias_odds@, a == self.aliases@,
//@                alias_contributions@.len() == nn,
//@                forall|i: int| 0 <= i < nn ==> (#[trigger] alias_contributions@[i]) as int == isum(t_final_contrib(a, o, s, i), j as int),
        {
//@            let ghost before = alias_contributions@;
//@            assert(o[j as int] as int <= s);
            if self.no_alias_odds[j] < self.weight_sum {
                let contribution = self.weight_sum - self.no_alias_odds[j];
                let alias_index = self.aliases[j] as usize;
//@                proof {
//@                    let f = t_final_contrib(a, o, s, alias_index as int);
//@                    assert forall|k: int| 0 <= k < nn implies #[trigger] f(k) >= 0 by { assert(o[k] as int <= s); }
//@                    lemma_isum_mono(f, j as int + 1, nn);
//@                    assert(o[alias_index as int] as int + isum(f, nn) == nn * (w[alias_index as int] as int));
//@                    lemma_table_bound(*self, w, alias_index as int);
//@                    lemma_isum_nonneg(f, j as int);
//@                }
                alias_contributions[alias_index] += contribution;
            }
//@            proof {
//@                assert forall|i: int| 0 <= i < nn implies (#[trigger] alias_contributions@[i]) as int == isum(t_final_contrib(a, o, s, i), j as int + 1) by {
//@                    assert(before[i] as int == isum(t_final_contrib(a, o, s, i), j as int));
//@                }
//@            }
        }

        // Reconstruct each weight by combining its direct `no_alias_odds`
        // with its total `alias_contributions` and scaling the result.
//@        proof {
//@            assert forall|i: int| 0 <= i < nn implies (#[trigger] o[i]) as int + alias_contributions@[i] as int == nn * (w[i] as int) by {}
//@            assert forall|i: int| 0 <= i < nn implies 0 <= (#[trigger] o[i]) as int + alias_contributions@[i] as int <= TTT::MAX by {
//@                lemma_table_bound(*self, w, i);
//@                assert(0 <= nn * (w[i] as int)) by (nonlinear_arith) requires 0 <= w[i] as int, nn > 0;
//@            }
//@            assert forall|i: int| 0 <= i < nn implies (nn * (#[trigger] w[i] as int)) / nn == w[i] as int by {
//@                assert((nn * (w[i] as int)) / nn == w[i] as int) by (nonlinear_arith) requires nn > 0;
//@            }
//@        }
        zip_map(&self.no_alias_odds, &alias_contributions, |no_alias_odd: W, alias_contribution: W| -> (r_: W) requires 0 <= no_alias_odd as int + alias_contribution as int <= W::MAX as int, n_converted > 0 ensures r_ as int == (no_alias_odd as int + alias_contribution as int) / (n_converted as int) { (no_alias_odd + alias_contribution) / n_converted })
    }
//@@end

//@@fn sample
    fn sample<R: Rng>(&self, rng: &mut R) -> usize
//@param Ghost(w): Ghost<Seq<W>>
//@ret r
//@        requires table_ok(*self, w),
//@        ensures
//@            r < w.len(), w[r as int] > 0,
//@            final(rng).draws().len() == old(rng).draws().len() + 2,
//@            ({ let d = final(rng).draws(); let c = d[d.len() - 2]; let t = d[d.len() - 1];
//@               0 <= c < w.len() && 0 <= t < self.weight_sum && r as int == pick(self.no_alias_odds@, self.aliases@, c, t) }),
    {
//@        proof { lemma_columns_ok(*self, w); }
        let candidate = rng.sample(self.uniform_index);
//@        assert(0 <= candidate < w.len());
        if rng.sample(&self.uniform_within_weight_sum) < self.no_alias_odds[candidate as usize] {
            candidate as usize
        } else {
            self.aliases[candidate as usize] as usize
        }
    }
//@@end
}

/// when the pairing loop stops every listed index has odds exactly `s` (integers: nothing is left over)
pub proof fn lemma_pair_exit(n: int, w: Seq<W>, s: int, o: Seq<W>, a: Seq<u32>, sh: u32, bh: u32,
                             smalls: Seq<u32>, bigs: Seq<u32>, st: Seq<int>)
    requires pair_inv(n, w, s, o, a, sh, bh, smalls, bigs, st), smalls.len() == 0 || bigs.len() == 0,
    ensures
        forall|j: int| 0 <= j < n ==> (st[j] != 2 ==> (#[trigger] o[j]) as int == s),
        forall|k: int| 0 <= k < bigs.len() ==> (#[trigger] o[bigs[k] as int]) as int == s,
        forall|k: int| 0 <= k < smalls.len() ==> (#[trigger] o[smalls[k] as int]) as int == s,
{
    let f = |j: int| if st[j] != 2 { o[j] as int - s } else { 0int };
    let lo = t_listed_odds(o, st); let lc = t_listed_cnt(st);
    lemma_isum_linear(lo, lc, s, n);
    lemma_isum_ext(f, |j: int| lo(j) - s * lc(j), n);
    assert(isum(f, n) == 0);
    if bigs.len() == 0 {
        assert forall|j: int| 0 <= j < n implies st[j] != 1 by { lemma_isum_zero(t_cnt(st, 1), n, j); }
        let g = |j: int| -f(j);
        lemma_isum_negate(f, n);
        assert forall|j: int| 0 <= j < n implies #[trigger] g(j) >= 0 by { assert(0 <= st[j] <= 2); if st[j] == 0 { assert((o[j] as int) <= s); } }
        assert forall|j: int| 0 <= j < n implies (st[j] != 2 ==> (#[trigger] o[j]) as int == s) by { lemma_isum_zero(g, n, j); }
    } else {
        assert forall|j: int| 0 <= j < n implies st[j] != 0 by { lemma_isum_zero(t_cnt(st, 0), n, j); }
        assert forall|j: int| 0 <= j < n implies #[trigger] f(j) >= 0 by { assert(0 <= st[j] <= 2); if st[j] == 1 { assert((o[j] as int) >= s); } }
        assert forall|j: int| 0 <= j < n implies (st[j] != 2 ==> (#[trigger] o[j]) as int == s) by { lemma_isum_zero(f, n, j); }
    }
    assert forall|k: int| 0 <= k < bigs.len() implies (#[trigger] o[bigs[k] as int]) as int == s by { assert(st[bigs[k] as int] == 1); }
    assert forall|k: int| 0 <= k < smalls.len() implies (#[trigger] o[smalls[k] as int]) as int == s by { assert(st[smalls[k] as int] == 0); }
}

pub open spec fn old_head_s(a: Seq<u32>, idx: int) -> u32 { a[idx] }


pub open spec fn pick(o: Seq<W>, a: Seq<u32>, c: int, t: int) -> int { if t < o[c] as int { c } else { a[c] as int } }

pub proof fn lemma_isum_ge_term(f: spec_fn(int) -> int, n: int, p: int)
    requires forall|j: int| 0 <= j < n ==> #[trigger] f(j) >= 0, 0 <= p < n
    ensures isum(f, n) >= f(p)
    decreases n
{ lemma_isum_nonneg(f, n - 1); if p < n - 1 { lemma_isum_ge_term(f, n - 1, p); } }

pub proof fn lemma_isum_mono(f: spec_fn(int) -> int, m: int, n: int)
    requires forall|j: int| 0 <= j < n ==> #[trigger] f(j) >= 0, 0 <= m <= n
    ensures isum(f, m) <= isum(f, n)
    decreases n - m
{ if m < n { lemma_isum_mono(f, m + 1, n); } }

pub proof fn lemma_table_bound(t: WeightedAliasIndex, w: Seq<W>, i: int)
    requires table_ok(t, w), 0 <= i < w.len()
    ensures (w.len() as int) * (w[i] as int) <= TTT::MAX
{ }
pub proof fn lemma_seq_sum_ge(w: Seq<W>, n: int, i: int)
    requires 0 <= i < n <= w.len(), forall|j: int| 0 <= j < w.len() ==> 0 <= #[trigger] w[j]
    ensures seq_sum(w, n) >= w[i]
    decreases n
{ lemma_seq_sum_nonneg(w, n - 1); if i < n - 1 { lemma_seq_sum_ge(w, n - 1, i); } }
pub proof fn lemma_seq_sum_nonneg(w: Seq<W>, n: int)
    requires n <= w.len(), forall|j: int| 0 <= j < w.len() ==> 0 <= #[trigger] w[j]
    ensures seq_sum(w, n) >= 0
    decreases n
{ if n > 0 { lemma_seq_sum_nonneg(w, n - 1); } }

pub proof fn lemma_isum_zero_fn(f: spec_fn(int) -> int, n: int)
    requires forall|j: int| 0 <= j < n ==> #[trigger] f(j) == 0
    ensures isum(f, n) == 0
    decreases n
{ if n > 0 { lemma_isum_zero_fn(f, n - 1); } }

pub proof fn lemma_isum_const(f: spec_fn(int) -> int, n: int, c: int)
    requires forall|j: int| 0 <= j < n ==> #[trigger] f(j) == c, n >= 0
    ensures isum(f, n) == n * c
    decreases n
{
    if n > 0 { lemma_isum_const(f, n - 1, c); assert((n - 1) * c + c == n * c) by (nonlinear_arith); }
    else { assert(n * c == 0) by (nonlinear_arith) requires n == 0; }
}

pub proof fn lemma_isum_scaled(w: Seq<W>, f: spec_fn(int) -> int, n: int, c: int)
    requires 0 <= n <= w.len(), forall|j: int| 0 <= j < n ==> #[trigger] f(j) == (w[j] as int) * c
    ensures isum(f, n) == c * seq_sum(w, n)
    decreases n
{
    if n > 0 {
        lemma_isum_scaled(w, f, n - 1, c);
        assert(c * (seq_sum(w, n - 1) + w[n - 1] as int) == c * seq_sum(w, n - 1) + (w[n - 1] as int) * c) by (nonlinear_arith);
    } else { assert(c * 0 == 0) by (nonlinear_arith); }
}

/// one iteration of the pairing loop, on the abstract state
pub proof fn lemma_pair_step(n: int, w: Seq<W>, s: int, o: Seq<W>, a: Seq<u32>, sh: u32, bh: u32,
                             smalls: Seq<u32>, bigs: Seq<u32>, st: Seq<int>, to_small: bool)
    requires
        pair_inv(n, w, s, o, a, sh, bh, smalls, bigs, st), smalls.len() > 0, bigs.len() > 0,
        to_small ==> (o[bigs[0] as int] as int - s + o[smalls[0] as int] as int) <= s,
        !to_small ==> (o[bigs[0] as int] as int - s + o[smalls[0] as int] as int) >= s,
    ensures ({
        let si = smalls[0] as int; let bi = bigs[0] as int;
        let nb = o[bi] as int - s + o[si] as int;
        let a1 = a.update(si, bigs[0]);
        let o1 = o.update(bi, nb as TTT);
        let sh1 = a[si]; let bh1 = a[bi];
        &&& 0 <= nb <= TTT::MAX && si != bi && si < n && bi < n && sh == smalls[0] && bh == bigs[0]
        &&& (to_small ==> pair_inv(n, w, s, o1, a1.update(bi, sh1), bigs[0], bh1,
                                   seq![bigs[0]] + smalls.drop_first(), bigs.drop_first(), st.update(si, 2).update(bi, 0)))
        &&& (!to_small ==> pair_inv(n, w, s, o1, a1.update(bi, bh1), sh1, bigs[0],
                                    smalls.drop_first(), seq![bigs[0]] + bigs.drop_first(), st.update(si, 2)))
    }),
{
    let si = smalls[0] as int; let bi = bigs[0] as int;
    assert(st[smalls[0] as int] == 0 && st[bigs[0] as int] == 1);
    assert((o[si] as int) <= s && (o[bi] as int) >= s);
    let nb = o[bi] as int - s + o[si] as int;
    let a1 = a.update(si, bigs[0]);
    let o1 = o.update(bi, nb as TTT);
    let sh1 = a[si]; let bh1 = a[bi];
    lemma_list_pop(a, sh, smalls, n);
    lemma_list_pop(a, bh, bigs, n);
    let sm1 = smalls.drop_first(); let bg1 = bigs.drop_first();
    // membership facts
    assert(not_in(bg1, si)) by { assert forall|k: int| 0 <= k < bg1.len() implies (#[trigger] bg1[k]) as int != si by { assert(bg1[k] == bigs[k + 1]); assert(st[bigs[k + 1] as int] == 1); } }
    assert(not_in(sm1, bi)) by { assert forall|k: int| 0 <= k < sm1.len() implies (#[trigger] sm1[k]) as int != bi by { assert(sm1[k] == smalls[k + 1]); assert(st[smalls[k + 1] as int] == 0); } }
    // set_alias(s, b) leaves both remaining lists intact
    lemma_list_frame(a, sh1, sm1, n, si, bigs[0]);
    lemma_list_frame(a, bh1, bg1, n, si, bigs[0]);
    let st1 = st.update(si, 2);
    // ---- sums that do not depend on the branch
    // listed odds / count
    let st2s = st1.update(bi, 0);
    if to_small {
        let a2 = a1.update(bi, sh1);
        lemma_list_push(a1, sh1, sm1, n, bigs[0]);
        lemma_list_frame(a1, bh1, bg1, n, bi, sh1);
        let st2 = st2s;
        let sm2 = seq![bigs[0]] + sm1;
        assert forall|k: int| 0 <= k < sm2.len() implies st2[(#[trigger] sm2[k]) as int] == 0 by {
            if k > 0 { assert(sm2[k] == sm1[k - 1]); assert(sm1[k - 1] == smalls[k]); assert(st[smalls[k] as int] == 0); assert(smalls[k] != smalls[0]); }
        }
        assert forall|k: int| 0 <= k < bg1.len() implies st2[(#[trigger] bg1[k]) as int] == 1 by {
            assert(bg1[k] == bigs[k + 1]); assert(st[bigs[k + 1] as int] == 1); assert(bigs[k + 1] != bigs[0]);
        }
        lemma_isum_update2(t_cnt(st, 0), t_cnt(st2, 0), n, si, bi);
        lemma_isum_update2(t_cnt(st, 1), t_cnt(st2, 1), n, si, bi);
        lemma_isum_update2(t_listed_odds(o, st), t_listed_odds(o1, st2), n, si, bi);
        lemma_isum_update2(t_listed_cnt(st), t_listed_cnt(st2), n, si, bi);
        assert(s * (isum(t_listed_cnt(st), n) - 1) == s * isum(t_listed_cnt(st), n) - s) by (nonlinear_arith);
        assert forall|i: int| 0 <= i < n implies (#[trigger] o1[i]) as int + isum(t_contrib(a2, o1, st2, s, i), n) == n * (w[i] as int) by {
            assert(o[i] as int + isum(t_contrib(a, o, st, s, i), n) == n * (w[i] as int));
            lemma_isum_update2(t_contrib(a, o, st, s, i), t_contrib(a2, o1, st2, s, i), n, si, bi);
        }
    } else {
        let a2 = a1.update(bi, bh1);
        lemma_list_push(a1, bh1, bg1, n, bigs[0]);
        lemma_list_frame(a1, sh1, sm1, n, bi, bh1);
        let st2 = st1;
        let bg2 = seq![bigs[0]] + bg1;
        assert forall|k: int| 0 <= k < bg2.len() implies st2[(#[trigger] bg2[k]) as int] == 1 by {
            if k > 0 { assert(bg2[k] == bg1[k - 1]); assert(bg1[k - 1] == bigs[k]); assert(st[bigs[k] as int] == 1); }
        }
        assert forall|k: int| 0 <= k < sm1.len() implies st2[(#[trigger] sm1[k]) as int] == 0 by {
            assert(sm1[k] == smalls[k + 1]); assert(st[smalls[k + 1] as int] == 0); assert(smalls[k + 1] != smalls[0]);
        }
        lemma_isum_update(t_cnt(st, 0), t_cnt(st2, 0), n, si);
        lemma_isum_update(t_cnt(st, 1), t_cnt(st2, 1), n, si);
        lemma_isum_update2(t_listed_odds(o, st), t_listed_odds(o1, st2), n, si, bi);
        lemma_isum_update(t_listed_cnt(st), t_listed_cnt(st2), n, si);
        assert(s * (isum(t_listed_cnt(st), n) - 1) == s * isum(t_listed_cnt(st), n) - s) by (nonlinear_arith);
        assert forall|i: int| 0 <= i < n implies (#[trigger] o1[i]) as int + isum(t_contrib(a2, o1, st2, s, i), n) == n * (w[i] as int) by {
            assert(o[i] as int + isum(t_contrib(a, o, st, s, i), n) == n * (w[i] as int));
            lemma_isum_update2(t_contrib(a, o, st, s, i), t_contrib(a2, o1, st2, s, i), n, si, bi);
        }
    }
}

pub proof fn lemma_sum_bound(w: Seq<W>, n: int, m: int)
    requires 0 <= n <= w.len(), forall|i: int| 0 <= i < w.len() ==> 0 <= #[trigger] w[i] <= m
    ensures seq_sum(w, n) <= n * m
    decreases n
{
    if n > 0 {
        lemma_sum_bound(w, n - 1, m);
        assert(w[n - 1] <= m);
        assert((n - 1) * m + m == n * m) by (nonlinear_arith);
    } else {
        assert(n * m == 0) by (nonlinear_arith) requires n == 0;
    }
}

/// every (column, threshold) pair selects a valid index of non-zero weight
pub proof fn lemma_pick_ok(t: WeightedAliasIndex, w: Seq<W>)
    requires table_ok(t, w)
    ensures forall|c: int, x: int| 0 <= c < w.len() && 0 <= x < t.weight_sum as int ==>
        0 <= #[trigger] pick(t.no_alias_odds@, t.aliases@, c, x) < w.len() && w[pick(t.no_alias_odds@, t.aliases@, c, x)] > 0
{
    let o = t.no_alias_odds@; let a = t.aliases@; let s = t.weight_sum as int; let nn = w.len() as int;
    assert forall|c: int, x: int| 0 <= c < nn && 0 <= x < s implies
        0 <= #[trigger] pick(o, a, c, x) < nn && w[pick(o, a, c, x)] > 0 by {
        let res = pick(o, a, c, x);
        assert(o[c] as int <= s);
        let f = t_final_contrib(a, o, s, res);
        assert forall|k: int| 0 <= k < nn implies #[trigger] f(k) >= 0 by { assert(o[k] as int <= s); }
        lemma_isum_nonneg(f, nn);
        assert(o[res] as int + isum(f, nn) == nn * (w[res] as int));
        if x < o[c] as int { } else { lemma_isum_ge_term(f, nn, c); }
        assert(nn * (w[res] as int) > 0);
        assert(w[res] > 0) by (nonlinear_arith) requires nn * (w[res] as int) > 0, nn > 0, w[res] >= 0;
    }
}

/// the same, phrased on the table columns (what `sample` reads)
pub proof fn lemma_columns_ok(t: WeightedAliasIndex, w: Seq<W>)
    requires table_ok(t, w)
    ensures forall|c: int| 0 <= c < w.len() ==>
        ((#[trigger] t.no_alias_odds@[c]) as int > 0 ==> w[c] > 0)
        && ((t.no_alias_odds@[c] as int) < t.weight_sum as int ==> (t.aliases@[c] as int) < w.len() && w[t.aliases@[c] as int] > 0)
{
    let o = t.no_alias_odds@; let a = t.aliases@; let s = t.weight_sum as int; let nn = w.len() as int;
    lemma_pick_ok(t, w);
    assert forall|c: int| 0 <= c < nn implies
        ((#[trigger] o[c]) as int > 0 ==> w[c] > 0) && ((o[c] as int) < s ==> (a[c] as int) < nn && w[a[c] as int] > 0) by {
        if o[c] as int > 0 { assert(pick(o, a, c, 0) == c); }
        if (o[c] as int) < s { assert(pick(o, a, c, o[c] as int) == a[c] as int); }
    }
}

// ------------------------------------------------------------------ C08 headline: exact probabilities
/// number of thresholds t in [0, upto) for which column c yields index i
pub open spec fn col_count(o: Seq<W>, a: Seq<u32>, c: int, i: int, upto: int) -> int decreases upto {
    if upto <= 0 { 0 } else { col_count(o, a, c, i, upto - 1) + (if pick(o, a, c, upto - 1) == i { 1int } else { 0 }) }
}
pub proof fn lemma_col_count(o: Seq<W>, a: Seq<u32>, c: int, i: int, upto: int)
    requires 0 <= o[c] as int, 0 <= upto
    ensures col_count(o, a, c, i, upto) ==
        (if c == i { if upto <= o[c] as int { upto } else { o[c] as int } } else { 0 })
        + (if a[c] as int == i { if upto <= o[c] as int { 0 } else { upto - o[c] as int } } else { 0 })
    decreases upto
{ if upto > 0 { lemma_col_count(o, a, c, i, upto - 1); } }

pub proof fn lemma_isum_add(f: spec_fn(int) -> int, g: spec_fn(int) -> int, h: spec_fn(int) -> int, n: int)
    requires forall|j: int| 0 <= j < n ==> #[trigger] h(j) == f(j) + g(j)
    ensures isum(h, n) == isum(f, n) + isum(g, n)
    decreases n
{ if n > 0 { lemma_isum_add(f, g, h, n - 1); } }

pub proof fn lemma_isum_single(f: spec_fn(int) -> int, n: int, p: int)
    requires 0 <= p < n, forall|j: int| 0 <= j < n && j != p ==> #[trigger] f(j) == 0
    ensures isum(f, n) == f(p)
    decreases n
{
    if n - 1 == p { lemma_isum_zero_fn(f, n - 1); } else { lemma_isum_single(f, n - 1, p); }
}

/// Of the n * S equally likely (column, threshold) pairs, exactly n * w[i] select index i:
/// P(sample == i) = n*w[i] / (n*S) = w[i] / sum(w)   (uniformity and independence of the two draws are assumed)
pub proof fn lemma_alias_exact(t: WeightedAliasIndex, w: Seq<W>, i: int)
    requires table_ok(t, w), 0 <= i < w.len()
    ensures isum(|c: int| col_count(t.no_alias_odds@, t.aliases@, c, i, t.weight_sum as int), w.len() as int) == (w.len() as int) * (w[i] as int)
{
    let o = t.no_alias_odds@; let a = t.aliases@; let s = t.weight_sum as int; let nn = w.len() as int;
    let h = |c: int| col_count(o, a, c, i, s);
    let f = |c: int| if c == i { o[c] as int } else { 0int };
    let g = t_final_contrib(a, o, s, i);
    assert forall|c: int| 0 <= c < nn implies #[trigger] h(c) == f(c) + g(c) by {
        assert(0 <= o[c] as int <= s);
        lemma_col_count(o, a, c, i, s);
    }
    lemma_isum_add(f, g, h, nn);
    lemma_isum_single(f, nn, i);
    assert(o[i] as int + isum(g, nn) == nn * (w[i] as int));
}

//@@vacuity

} // verus!
fn main() {}

#!/usr/bin/env python3
"""Checking the checker (DESIGN.md section 7): apply single edits to a scratch copy of /repo/src and run a
Verus unit on it.  Breaking edits must be reported as 'failed' (never 'infra'), harmless edits and the
unchanged text must stay 'verified'.  Not part of any registered check; run by hand / from notes."""
import json
import os
import shutil
import sys
import tempfile
from concurrent.futures import ThreadPoolExecutor

sys.path.insert(0, os.path.dirname(os.path.abspath(__file__)))
import run as R

TREE = "src/weighted/weighted_tree.rs"
ALIAS = "src/weighted/weighted_alias.rs"

# (name, unit, file, old, new, occurrence (0-based) , expected status)
CASES = [
    ("baseline", "tree", None, None, None, 0, "verified"),
    ("push-parent-i/2", "tree", TREE, "index = (index - 1) / 2;\n            self.subtotals[index].checked_add_assign(&weight).unwrap();", "index = index / 2;\n            self.subtotals[index].checked_add_assign(&weight).unwrap();", 0, "failed"),
    ("new-parent-i/2", "tree", TREE, "let parent = (i - 1) / 2;", "let parent = i / 2;", 0, "failed"),
    ("push-no-overflow-precheck", "tree", TREE, "if total.checked_add_assign(&weight).is_err() {\n                return Err(Error::Overflow);\n            }", "let _ = total.checked_add_assign(&weight);", 0, "failed"),
    ("pop-stops-below-root", "tree", TREE, "while index != 0 {\n                index = (index - 1) / 2;\n                self.subtotals[index] -= weight.clone();", "while index > 2 {\n                index = (index - 1) / 2;\n                self.subtotals[index] -= weight.clone();", 0, "failed"),
    ("update-wrong-difference", "tree", TREE, "let mut difference = old_weight;\n            difference -= weight;", "let mut difference = old_weight;", 0, "failed"),
    ("sample-no-left-subtract", "tree", TREE, "target_weight -= left_subtotal;", "", 0, "failed"),
    ("sample-right-le", "tree", TREE, "if target_weight < right_subtotal {", "if target_weight <= right_subtotal {", 0, "failed"),
    ("get-swapped-children", "tree", TREE, "let left_index = 2 * index + 1;\n        let right_index = 2 * index + 2;\n        let mut w", "let left_index = 2 * index + 2;\n        let right_index = 2 * index + 1;\n        let mut w", 0, "verified"),
    ("is_valid-ge", "tree", TREE, "*weight > W::ZERO", "*weight >= W::ZERO", 0, "failed"),
    ("push-accepts-negative", "tree", TREE, "if !(weight >= W::ZERO) {\n            return Err(Error::InvalidWeight);\n        }\n        if let Some(total)", "if let Some(total)", 0, "failed"),
    ("update-upward-walk-skips-self", "tree", TREE, "self.subtotals[index]\n                .checked_add_assign(&difference)\n                .unwrap();\n            while", "while", 0, "failed"),
    ("harmless-shift", "tree", TREE, "index = (index - 1) / 2;\n            self.subtotals[index].checked_add_assign(&weight).unwrap();", "index = (index - 1) >> 1;\n            self.subtotals[index].checked_add_assign(&weight).unwrap();", 0, "verified"),
    ("harmless-rename-local", "tree", TREE, None, None, 0, "verified"),   # handled specially below
    ("alias-baseline", "alias", None, None, None, 0, "verified"),
    ("alias-drop-minus-sum", "alias", ALIAS, "no_alias_odds[b as usize] - weight_sum + no_alias_odds[s as usize];", "no_alias_odds[b as usize] + no_alias_odds[s as usize];", 0, "failed"),
    ("alias-set-alias-swapped", "alias", ALIAS, "aliases.set_alias(s, b);", "aliases.set_alias(b, s);", 0, "failed"),
    ("alias-max-weight-MAX", "alias", ALIAS, ".map(|n| W::MAX / n)", ".map(|n| W::MAX)", 0, "failed"),
    ("alias-weights-ignores-contrib", "alias", ALIAS, "(no_alias_odd + alias_contribution) / n_converted", "no_alias_odd / n_converted", 0, "failed"),
    ("alias-split-swapped", "alias", ALIAS, "if odds < weight_sum {", "if odds > weight_sum {", 0, "failed"),
    ("alias-sample-le", "alias", ALIAS, "rng.sample(&self.uniform_within_weight_sum) < self.no_alias_odds[candidate as usize]", "rng.sample(&self.uniform_within_weight_sum) <= self.no_alias_odds[candidate as usize]", 0, "failed"),
    ("alias-accept-empty", "alias", ALIAS, "if n == 0 || n > u32::MAX as usize {", "if n > u32::MAX as usize {", 0, "failed"),
    ("alias-validity-lt", "alias", ALIAS, "W::ZERO <= w && w <= max_weight_size", "W::ZERO <= w && w < max_weight_size", 0, "failed"),
    ("alias-harmless-split-le-1", "alias", ALIAS, "if odds < weight_sum {", "if odds <= weight_sum {", 0, "verified"),
    ("alias-harmless-split-le-2", "alias", ALIAS, "if no_alias_odds[b as usize] < weight_sum {", "if no_alias_odds[b as usize] <= weight_sum {", 0, "verified"),
    ("alias-weights-wrong-index", "alias", ALIAS, "let alias_index = self.aliases[j] as usize;", "let alias_index = j;", 0, "failed"),
    ("harmless-reorder", "tree", TREE, "let left_index = 2 * index + 1;\n        let right_index = 2 * index + 2;\n        let mut w = self.subtotals[index].clone();", "let mut w = self.subtotals[index].clone();\n        let right_index = 2 * index + 2;\n        let left_index = 2 * index + 1;", 0, "verified"),
]


def run_case(case, ty):
    name, unit, file, old, new, occ, expect = case
    d = tempfile.mkdtemp(prefix="vxmut_")
    try:
        shutil.copytree("/repo/src", os.path.join(d, "src"))
        if name == "harmless-rename-local":
            p = os.path.join(d, file)
            s = open(p).read()
            a = s.index("pub fn push(")
            b = s.index("/// Updates the weight", a)
            seg = s[a:b].replace("index", "idx")
            open(p, "w").write(s[:a] + seg + s[b:])
        elif file:
            p = os.path.join(d, file)
            s = open(p).read()
            if s.count(old) <= occ:
                return name, expect, "EDIT-NOT-APPLICABLE", []
            i = -1
            for _ in range(occ + 1): i = s.index(old, i + 1)
            open(p, "w").write(s[:i] + new + s[i + len(old):])
        r = R.run_unit(unit, ty, d, os.path.join(d, "w"))
        fails = ["%s @%s:%s [%s] %s" % (f["function"], f["repo_file"], f["repo_line"], f["message"], f["emitted_text"][:70]) for f in r["failures"]]
        return name, expect, r["status"], fails + r["infra"]
    finally:
        shutil.rmtree(d, ignore_errors=True)


if __name__ == "__main__":
    ty = sys.argv[1] if len(sys.argv) > 1 else "u64"
    only = sys.argv[2:] or None
    cases = [c for c in CASES if not only or c[0] in only or c[1] in only]
    bad = 0
    with ThreadPoolExecutor(max_workers=8) as ex:
        for name, expect, got, detail in ex.map(lambda c: run_case(c, ty), cases):
            ok = got == expect
            bad += not ok
            print("%-34s expect=%-9s got=%-9s %s" % (name, expect, got, "ok" if ok else "MISMATCH"))
            for x in detail[:4]: print("      ", x)
    sys.exit(1 if bad else 0)

"""Unit definitions for the Verus pipeline: which functions of /repo go under contract, where they are
found, and which rewrite rules (all listed in DESIGN.md section 3.1) are applied to their text."""
import os
from extract import Rule

HERE = os.path.dirname(os.path.abspath(__file__))

INT_TYPES = {
    "u8": (False, 8), "u16": (False, 16), "u32": (False, 32), "u64": (False, 64), "u128": (False, 128),
    "usize": (False, 64), "i8": (True, 8), "i16": (True, 16), "i32": (True, 32), "i64": (True, 64),
    "i128": (True, 128), "isize": (True, 64),
}


def subst_for(ty):
    signed, bits = INT_TYPES[ty]
    maxv = (1 << (bits - 1)) - 1 if signed else (1 << bits) - 1
    return {"text": {"TTT": ty},
            "flags": {"signed": signed, "unsigned": not signed, "narrow": maxv < (1 << 32) - 1, "wide": maxv >= (1 << 32) - 1}}


# ------------------------------------------------------------------ rules (ids as in DESIGN.md 3.1)
TREE = "src/weighted/weighted_tree.rs"
TREE_IMPL = [r"^impl\b.*\bWeightedTreeIndex\s*<\s*W\s*>$"]
TREE_DIST_IMPL = [r"^impl\b.*\bDistribution\s*<\s*usize\s*>\s*for\s+WeightedTreeIndex\s*<\s*W\s*>$"]

R3_sig = Rule("R3", "fn new<I>(weights: I) -> Result<Self, Error> where I: IntoIterator, I::Item: SampleBorrow<W>,",
              "fn new(weights: Vec<W>) -> Result<Self, Error>",
              "generic IntoIterator argument: the weights are taken as an already materialised Vec<W>")
R3_body = Rule("R3", "let mut subtotals: Vec<W> = weights.into_iter().map(|x| x.borrow().clone()).collect();",
               "let mut subtotals: Vec<W> = weights;",
               "iterator materialisation `into_iter().map(borrow().clone()).collect()` (cross-checked by Kani unit tree_new_materialise)")
R5_map_err = Rule("R5", ".map_err(|()| $e)", ".map_err(|_e: ()| -> (r: Error) ensures r == $e { $e })",
                  "closure parameter pattern `()` named; closure given an `ensures` restating its literal body", count="*")
R4_inspect = Rule("R4", "{ $opt.inspect(|$p:tok| { $body }) }",
                  "{ match $opt { Some(v_) => { let $p = &v_; { $body } ; Some(v_) } None => None } }",
                  "std's Option::inspect replaced by its definition (closure capturing &mut self is outside Verus' subset)")
R7_rng = Rule("R7", "<R: Rng + ?Sized>", "<R: Rng>", "`?Sized` bound (dyn RNGs); Rng is the prelude trait with the assumed range contract")
R2_track = Rule("R2", "#[track_caller]", "", "attribute", count="*")

UNITS = {
    "tree": {
        "name": "tree",
        "self_type": "WeightedTreeIndex",
        "template": os.path.join(HERE, "specs", "tree.vspec.rs"),
        "types": ["u8", "u16", "u32", "u64", "u128", "usize", "i8", "i16", "i32", "i64", "i128", "isize"],
        "quick_types": ["u64", "i32"],
        "structs": {"WeightedTreeIndex": {"file": TREE, "fields": ["subtotals"]}},
        "functions": {
            "new": {"file": TREE, "path": TREE_IMPL, "name": "new", "rules": [R3_sig, R3_body]},
            "is_empty": {"file": TREE, "path": TREE_IMPL, "name": "is_empty"},
            "len": {"file": TREE, "path": TREE_IMPL, "name": "len"},
            "is_valid": {"file": TREE, "path": TREE_IMPL, "name": "is_valid"},
            "get": {"file": TREE, "path": TREE_IMPL, "name": "get"},
            "pop": {"file": TREE, "path": TREE_IMPL, "name": "pop", "rules": [R4_inspect]},
            "push": {"file": TREE, "path": TREE_IMPL, "name": "push"},
            "update": {"file": TREE, "path": TREE_IMPL, "name": "update"},
            "subtotal": {"file": TREE, "path": TREE_IMPL, "name": "subtotal"},
            "try_sample": {"file": TREE, "path": TREE_IMPL, "name": "try_sample", "rules": [R7_rng]},
            "sample": {"file": TREE, "path": TREE_DIST_IMPL, "name": "sample", "rules": [R7_rng]},
        },
        # which property each function's obligations belong to
        "property_of": {
            "C09": ["new", "is_empty", "len", "is_valid", "get", "pop", "push", "update", "subtotal",
                    "lemma_canonical", "lemma_canonical_at", "lemma_history_equals_fresh", "lemma_subtotal_is_subtree_sum"],
            # C10 quantifies over the states reachable by any history, so it also depends on every operation preserving wf
            "C10": ["*"],
            "C04": ["new", "push", "update", "len", "get"],
        },
    },
}


# ------------------------------------------------------------------ alias
ALIAS = "src/weighted/weighted_alias.rs"
ALIAS_IMPL = [r"^impl\s*<\s*W\s*:\s*AliasableWeight\s*>\s*WeightedAliasIndex\s*<\s*W\s*>$"]
ALIAS_DIST_IMPL = [r"^impl\b.*\bDistribution\s*<\s*usize\s*>\s*for\s+WeightedAliasIndex\s*<\s*W\s*>$"]
ALIASES_IMPL = ALIAS_IMPL + [r"\bfn new\b", r"^impl Aliases$"]


def _deref_to_index(env):
    """$body2 := $body with every `* $x` replaced by `$s [ i_ ]`"""
    from rtok import Tok
    x, s = env["x"][0].text, env["s"][0]
    out, body, i = [], env["body"], 0
    while i < len(body):
        if body[i].text == "*" and i + 1 < len(body) and body[i + 1].text == x:
            ln = body[i].line
            out += [Tok(s.text, ln, "id", "rule:R9"), Tok("[", ln, "punct", "rule:R9"), Tok("i_", ln, "id", "rule:R9"), Tok("]", ln, "punct", "rule:R9")]
            i += 2
        else:
            out.append(body[i]); i += 1
    env = dict(env); env["body2"] = out
    return env


R6_hoist = Rule("R6", "struct Aliases { $f } impl Aliases { $m }", "",
                "fn-local items `struct Aliases` / `impl Aliases` are hoisted to module level (items capture nothing); its methods are extracted as separate functions")
R5_map_max = Rule("R5", ".map(|n| $b)", ".map(|n: W| -> (r: W) requires n > 0 ensures r == $b { $b })",
                  "closure parameter typed; closure given a `requires n > 0` and an `ensures` restating its literal body")
R8_all = Rule("R8", "!$v:tok.iter().all(|&$w:tok| $pred)",
              "!vec_all(&$v, |$w: W| -> (r_: bool) ensures r_ == ($pred) { $pred })",
              "`slice.iter().all(|&w| P)` -> prelude `vec_all(&v, |w| P)` (assumed: true iff P holds for every element); the predicate text itself stays under verification")
R8_sum = Rule("R8", "AliasableWeight::sum($s)", "weight_sum_of($s)",
              "`AliasableWeight::sum` (= `iter().copied().sum()`) -> prelude `weight_sum_of` (assumed: exact sum, requires no overflow)")
R8_boxed = Rule("R8", "$v:tok.into_boxed_slice()", "into_boxed_slice($v)", "`Vec::into_boxed_slice` -> prelude fn (assumed: same sequence)")
R8_zeros = Rule("R8", "vec![0; $n].into_boxed_slice()", "boxed_zeros($n)", "`vec![0; n].into_boxed_slice()` -> prelude fn (assumed: n zeros)")
R8_veczeros = Rule("R8", "vec![W::ZERO; $n]", "vec_zeros($n)", "`vec![W::ZERO; n]` -> prelude fn (assumed: n zeros)")
R8_uni_u32 = Rule("R8", "Uniform::new(0, $n)", "uniform_new_u32(0, $n)", "`Uniform::<u32>::new(lo, hi)` -> prelude fn (assumed: Ok iff lo < hi, and then samples in [lo, hi))")
R8_uni_w = Rule("R8", "Uniform::new(W::ZERO, $s)", "uniform_new_w(W::ZERO, $s)", "`Uniform::<W>::new(lo, hi)` -> prelude fn (assumed: Ok iff lo < hi, and then samples in [lo, hi))")
R9_iter_mut = Rule("R9", "for $x:tok in $s:tok.iter_mut() { $body }", "let len_ = $s.len(); for i_ in 0..len_ { $body2 }",
                   "`for x in s.iter_mut() { ..*x.. }` -> index loop over 0..s.len() with `*x` spelled `s[i_]` (std's definition of iter_mut over a slice)")
R9_iter_mut.post = _deref_to_index
R9_enum = Rule("R9", "for ($i:tok, &$x:tok) in $s:tok.iter().enumerate() { $body }",
               "let len2_ = $s.len(); for $i in 0..len2_ { let $x = $s[$i]; $body }",
               "`for (i, &x) in s.iter().enumerate()` -> index loop with `let x = s[i];` (std's definition of enumerate over a slice)")
R10_zip = Rule("R10", "self.no_alias_odds.iter().zip(&alias_contributions).map(|(&$a:tok, &$b:tok)| { $body }).collect()",
               "zip_map(&self.no_alias_odds, &alias_contributions, |$a: W, $b: W| -> (r_: W) requires 0 <= $a as int + $b as int <= W::MAX as int, n_converted > 0 ensures r_ as int == ($a as int + $b as int) / (n_converted as int) { $body })",
               "`a.iter().zip(&b).map(|(&x,&y)| E).collect()` -> prelude `zip_map(a, b, |x,y| E)` (assumed: element-wise application); the closure body E stays under verification against `(x + y) / n`")

for _f in UNITS["tree"]["functions"].values():
    _f.setdefault("rules", []).append(R5_map_err)

UNITS["alias"] = {
    "name": "alias",
    "self_type": "WeightedAliasIndex",
    "template": os.path.join(HERE, "specs", "alias.vspec.rs"),
    "types": ["u8", "u16", "u32", "u64", "u128", "usize", "i8", "i16", "i32", "i64", "i128"],
    "quick_types": ["u64", "i32"],
    "structs": {"WeightedAliasIndex": {"file": ALIAS, "fields": ["aliases", "no_alias_odds", "uniform_index", "uniform_within_weight_sum", "weight_sum"]},
                "Aliases": {"file": ALIAS, "fields": ["aliases", "smalls_head", "bigs_head"]}},
    "functions": {
        "aliases_new": {"file": ALIAS, "path": ALIASES_IMPL, "self_type": "Aliases", "name": "new", "rules": [R8_zeros]},
        "push_small": {"file": ALIAS, "path": ALIASES_IMPL, "self_type": "Aliases", "name": "push_small"},
        "push_big": {"file": ALIAS, "path": ALIASES_IMPL, "self_type": "Aliases", "name": "push_big"},
        "pop_small": {"file": ALIAS, "path": ALIASES_IMPL, "self_type": "Aliases", "name": "pop_small"},
        "pop_big": {"file": ALIAS, "path": ALIASES_IMPL, "self_type": "Aliases", "name": "pop_big"},
        "smalls_is_empty": {"file": ALIAS, "path": ALIASES_IMPL, "self_type": "Aliases", "name": "smalls_is_empty"},
        "bigs_is_empty": {"file": ALIAS, "path": ALIASES_IMPL, "self_type": "Aliases", "name": "bigs_is_empty"},
        "set_alias": {"file": ALIAS, "path": ALIASES_IMPL, "self_type": "Aliases", "name": "set_alias"},
        "new": {"file": ALIAS, "path": ALIAS_IMPL, "name": "new",
                "rules": [R6_hoist, R5_map_max, R8_all, R8_sum, R8_boxed, R9_iter_mut, R9_enum, R8_uni_u32, R8_uni_w]},
        "weights": {"file": ALIAS, "path": ALIAS_IMPL, "name": "weights", "rules": [R8_veczeros, R10_zip]},
        "sample": {"file": ALIAS, "path": ALIAS_DIST_IMPL, "name": "sample", "rules": [R7_rng]},
        "try_from_u32_lossy": {"file": ALIAS, "path": [r"^macro_rules\s*!\s*impl_weight_for_int$", r"ident", r"^impl AliasableWeight for \$\s*T$"], "name": "try_from_u32_lossy"},
    },
    "property_of": {
        "C08": ["*"],
        "C04": ["new", "try_from_u32_lossy"],
    },
}


# ------------------------------------------------------------------ Hypergeometric::new in VF mode (floats havocked)
HYPER = "src/hypergeometric.rs"
R13_neg_l = Rule("R13", "let lambda_l = -(($e).ln());", "let lambda_l = fneg(($e).ln());",
                 "float unary minus (unsupported by Verus) routed through the prelude fn `fneg`; harmless where float values are havocked anyway")
R13_neg_r = Rule("R13", "let lambda_r = -(($e).ln());", "let lambda_r = fneg(($e).ln());", "as above")
R2_allow = Rule("R2", "#[allow($x)]", "", "attribute", count="*")

UNITS["hypergeo"] = {
    "name": "hypergeo",
    "self_type": "Hypergeometric",
    "template": os.path.join(HERE, "specs", "hypergeo.vspec.rs"),
    "types": ["u64"], "quick_types": ["u64"],
    "structs": {"Hypergeometric": {"file": HYPER, "fields": ["n1", "n2", "k", "offset_x", "sign_x", "sampling_method"]}},
    "functions": {
        "new": {"file": HYPER, "path": [r"^impl Hypergeometric$"], "name": "new", "rules": [R13_neg_l, R13_neg_r, R2_allow]},
    },
    "property_of": {"C04": ["new"], "C03": ["new"]},
}

"""Unit definitions for the Verus pipeline: which functions of /repo go under contract, where they are
found, and which rewrite rules (all listed in DESIGN.md section 3.1) are applied to their text."""
import os
from extract import Rule

HERE = os.path.dirname(os.path.abspath(__file__))

INT_TYPES = {
    "u8": (False, 8), "u16": (False, 16), "u32": (False, 32), "u64": (False, 64), "u128": (False, 128),
    "usize": (False, 64), "i8": (True, 8), "i16": (True, 16), "i32": (True, 32), "i64": (True, 64),
    "i128": (True, 128), "isize": (True, 64),
}


def subst_for(ty):
    signed, bits = INT_TYPES[ty]
    maxv = (1 << (bits - 1)) - 1 if signed else (1 << bits) - 1
    return {"text": {"TTT": ty},
            "flags": {"signed": signed, "unsigned": not signed, "narrow": maxv < (1 << 32) - 1, "wide": maxv >= (1 << 32) - 1}}


# ------------------------------------------------------------------ rules (ids as in DESIGN.md 3.1)
TREE = "src/weighted/weighted_tree.rs"
TREE_IMPL = [r"^impl\b.*\bWeightedTreeIndex\s*<\s*W\s*>$"]
TREE_DIST_IMPL = [r"^impl\b.*\bDistribution\s*<\s*usize\s*>\s*for\s+WeightedTreeIndex\s*<\s*W\s*>$"]

R3_sig = Rule("R3", "fn new<I>(weights: I) -> Result<Self, Error> where I: IntoIterator, I::Item: SampleBorrow<W>,",
              "fn new(weights: Vec<W>) -> Result<Self, Error>",
              "generic IntoIterator argument: the weights are taken as an already materialised Vec<W>")
R3_body = Rule("R3", "let mut subtotals: Vec<W> = weights.into_iter().map(|x| x.borrow().clone()).collect();",
               "let mut subtotals: Vec<W> = weights;",
               "iterator materialisation `into_iter().map(borrow().clone()).collect()` (cross-checked by Kani unit tree_new_materialise)")
R5_map_err = Rule("R5", ".map_err(|()| $e)", ".map_err(|_e: ()| -> (r: Error) ensures r == $e { $e })",
                  "closure parameter pattern `()` named; closure given an `ensures` restating its literal body")
R4_inspect = Rule("R4", "{ $opt.inspect(|$p:tok| { $body }) }",
                  "{ match $opt { Some(v_) => { let $p = &v_; { $body } ; Some(v_) } None => None } }",
                  "std's Option::inspect replaced by its definition (closure capturing &mut self is outside Verus' subset)")
R7_rng = Rule("R7", "<R: Rng + ?Sized>", "<R: Rng>", "`?Sized` bound (dyn RNGs); Rng is the prelude trait with the assumed range contract")
R2_track = Rule("R2", "#[track_caller]", "", "attribute", count="*")

UNITS = {
    "tree": {
        "name": "tree",
        "self_type": "WeightedTreeIndex",
        "template": os.path.join(HERE, "specs", "tree.vspec.rs"),
        "types": ["u8", "u16", "u32", "u64", "u128", "usize", "i8", "i16", "i32", "i64", "i128", "isize"],
        "quick_types": ["u64", "i32"],
        "structs": {"WeightedTreeIndex": {"file": TREE, "fields": ["subtotals"]}},
        "functions": {
            "new": {"file": TREE, "path": TREE_IMPL, "name": "new", "rules": [R3_sig, R3_body, R5_map_err]},
            "is_empty": {"file": TREE, "path": TREE_IMPL, "name": "is_empty"},
            "len": {"file": TREE, "path": TREE_IMPL, "name": "len"},
            "is_valid": {"file": TREE, "path": TREE_IMPL, "name": "is_valid"},
            "get": {"file": TREE, "path": TREE_IMPL, "name": "get"},
            "pop": {"file": TREE, "path": TREE_IMPL, "name": "pop", "rules": [R4_inspect]},
            "push": {"file": TREE, "path": TREE_IMPL, "name": "push"},
            "update": {"file": TREE, "path": TREE_IMPL, "name": "update"},
            "subtotal": {"file": TREE, "path": TREE_IMPL, "name": "subtotal"},
            "try_sample": {"file": TREE, "path": TREE_IMPL, "name": "try_sample", "rules": [R7_rng]},
            "sample": {"file": TREE, "path": TREE_DIST_IMPL, "name": "sample", "rules": [R7_rng]},
        },
        # which property each function's obligations belong to
        "property_of": {
            "C09": ["new", "is_empty", "len", "is_valid", "get", "pop", "push", "update", "subtotal",
                    "lemma_canonical", "lemma_canonical_at", "lemma_history_equals_fresh", "lemma_subtotal_is_subtree_sum"],
            "C10": ["try_sample", "sample", "subtotal", "get", "is_valid", "lemma_descend_bijection", "lemma_descend_rank", "lemma_rank_descend"],
            "C04": ["new", "push", "update", "len", "get"],
        },
    },
}

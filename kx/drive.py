#!/usr/bin/env python3
"""development driver: build the overlay and run a set of Kani harnesses in parallel"""
import json, os, sys, tempfile, shutil, time
from concurrent.futures import ThreadPoolExecutor
sys.path.insert(0, os.path.dirname(os.path.abspath(__file__)))
import kani, kunits as units

def main():
    pat = sys.argv[1] if len(sys.argv) > 1 else ""
    jobs = int(os.environ.get("JOBS", "10"))
    repo = os.environ.get("VERIF_REPO", "/repo")
    ov = os.environ.get("OVERLAY") or tempfile.mkdtemp(prefix="kxov_")
    allu = units.all_units()
    sel = [u for u in allu if pat in u["id"]]
    ins = kani.make_overlay(repo, ov, units.contracts(), units.CHILD_MODULES)
    open(os.path.join(ov, "src/verif_kani/c04_gen.rs"), "w").write(units.gen_c04())
    t0 = time.time()
    w = kani.run_harness(ov, sel[0]["harness"], solver=sel[0].get("solver"), timeout=sel[0].get("timeout", 1200), extra=sel[0].get("extra"))
    print("warm-up (build) %.1fs status=%s" % (time.time() - t0, w["status"]))
    if w.get("error_tail") and w["verdict"] is None:
        print(w["error_tail"]); print("overlay kept at", ov); return 2
    def go(u):
        r = kani.run_harness(ov, u["harness"], solver=u.get("solver"), timeout=u.get("timeout", 600), unwind=u.get("unwind"), extra=u.get("extra"), should_panic=u.get("should_panic", False))
        if r["status"] == "refuted" and os.environ.get("PLAYBACK"):
            r2 = kani.run_harness(ov, u["harness"], solver=u.get("solver"), timeout=u.get("timeout", 600) * 3, unwind=u.get("unwind"), extra=u.get("extra"), playback=True, should_panic=u.get("should_panic", False))
            r["concrete_vals"], r["concrete_for"] = r2.get("concrete_vals"), r2.get("concrete_for")
        return u, r
    with ThreadPoolExecutor(max_workers=jobs) as ex:
        for u, r in ex.map(go, sel):
            print("%-44s %-10s checks=%d/%d ignored=%d covers_ok=%d wall=%.1fs stubs=%d %s" % (u["id"], r["status"], r["discharged"], r["counted"], r["ignored"], r["covers_ok"], r["wall_s"], len(r["stubs"]), "TIMEOUT" if r["timed_out"] else ""))
            for c in r["refuted"][:4]: print("     REFUTED:", c["description"][:150], "@", c["location"][:80])
            for c in r["undetermined"][:3]: print("     UNDET:", c["description"][:150])
            for c in r["covers_unsat"][:3]: print("     COVER-UNSAT:", c["description"][:150])
            if r.get("error_tail"): print("     ERR:", r["error_tail"][-600:])
            if r["concrete_vals"]: print("     cex bytes:", r["concrete_vals"], "for", r.get("concrete_for"))
    if not os.environ.get("OVERLAY") and not os.environ.get("KEEP"): shutil.rmtree(ov, ignore_errors=True)
    else: print("overlay at", ov)

main()

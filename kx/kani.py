#!/usr/bin/env python3
"""Kani pipeline: overlay copy of /repo with contracts attached in place, harness runner, result parser.

overlay (made on every run, in scratch space, from the repository's current working tree):
  * `#[cfg(kani)] mod verif_kani;` appended to src/lib.rs, harness files copied to src/verif_kani/
  * `#[cfg_attr(kani, kani::requires/ensures(..))]` lines inserted above the functions named in contracts.py
    (anchor = file + impl header + fn name; a lost anchor is an infrastructure error)
  * child-module harnesses (`#[cfg(kani)] #[path=..] mod verif_child;`) appended to the files listed in CHILD_MODULES
  * crate-level `#![cfg_attr(kani, feature(core_intrinsics))]` so that libm::sqrt/floor can be replaced by the exact
    CBMC intrinsics
Only attributes and cfg(kani) modules are added; no executable token of the crate is changed.
"""
import json
import os
import re
import shutil
import subprocess
import sys
import time

HERE = os.path.dirname(os.path.abspath(__file__))
sys.path.insert(0, os.path.join(os.path.dirname(HERE), "vx"))
from rtok import tokenize, join
from extract import find_fn, ExtractError

IGNORED_CLASSES = ("NaN on ", "arithmetic overflow on floating-point")


class OverlayError(Exception):
    pass


def make_overlay(repo, dest, contracts, child_modules):
    if os.path.exists(dest): shutil.rmtree(dest)
    subprocess.run(["rsync", "-a", "--exclude", "target", "--exclude", ".git", repo.rstrip("/") + "/", dest + "/"], check=True)
    src = os.path.join(dest, "src")
    vk = os.path.join(src, "verif_kani")
    os.makedirs(vk, exist_ok=True)
    for f in os.listdir(os.path.join(HERE, "harness")):
        if f.endswith(".rs"): shutil.copy(os.path.join(HERE, "harness", f), os.path.join(vk, f))
    shutil.copy(os.path.join(HERE, "spec.rs"), os.path.join(vk, "spec.rs"))
    inserted = []
    # ---- contract attributes, grouped per file; insert bottom-up so line numbers stay valid
    by_file = {}
    for c in contracts: by_file.setdefault(c["file"], []).append(c)
    for rel, cs in by_file.items():
        p = os.path.join(dest, rel)
        text = open(p).read()
        toks = tokenize(text)
        lines = text.split("\n")
        ins = []
        for c in cs:
            try:
                s, o, e = find_fn(toks, c["path"], c["fn"])
            except ExtractError as ex:
                raise OverlayError("contract anchor lost: %s %s (%s)" % (rel, c["fn"], ex))
            ln = toks[s].line        # 1-based line of `pub fn`
            attrs = []
            for kind in ("requires", "ensures"):
                for t in c.get(kind, []):
                    attrs.append("    #[cfg_attr(kani, kani::%s(%s))]" % (kind, t))
            ins.append((ln, attrs, c))
        for ln, attrs, c in sorted(ins, key=lambda x: -x[0]):
            lines[ln - 1:ln - 1] = attrs
            inserted.append({"file": rel, "fn": c["fn"], "repo_line": ln, "attributes": [a.strip() for a in attrs]})
        open(p, "w").write("\n".join(lines))
    for rel, modfile in child_modules.items():
        p = os.path.join(dest, rel)
        depth = rel.count("/") - 1      # src/x.rs -> 0 ; src/multi/x.rs -> 1
        path = "../" * depth + "verif_kani/" + modfile
        with open(p, "a") as f:
            f.write("\n#[cfg(kani)]\n#[path = \"%s\"]\nmod verif_child;\n" % path)
    lib = os.path.join(src, "lib.rs")
    text = open(lib).read()
    text = "#![cfg_attr(kani, feature(core_intrinsics))]\n#![cfg_attr(kani, allow(internal_features))]\n" + text + "\n#[cfg(kani)]\nmod verif_kani;\n"
    open(lib, "w").write(text)
    os.makedirs(os.path.join(dest, ".cargo"), exist_ok=True)
    with open(os.path.join(dest, ".cargo", "config.toml"), "w") as f:
        f.write("[net]\noffline = true\n")
    return inserted


# the check name of code inside a trait impl contains spaces (`<T as Trait>::f.assertion.1`): match the whole line
CHECK_RE = re.compile(r"^Check (\d+): ([^\n]+)\n[ \t]+- Status: (\w+)\n[ \t]+- Description: \"((?:[^\n]|\n)*?)\"\n(?:[ \t]+- Location: ([^\n]*)\n)?(?=\n|\Z)", re.M)   # descriptions can span lines


def parse_output(out):
    checks = []
    for m in CHECK_RE.finditer(out):
        checks.append({"n": int(m.group(1)), "name": m.group(2), "status": m.group(3), "description": m.group(4), "location": (m.group(5) or "").strip()})
    res = {"checks": checks}
    # safety net: every check block Kani printed must have been parsed (a failing check that is not parsed would be lost)
    res["unparsed_checks"] = len(re.findall(r"^Check \d+: ", out, re.M)) - len(checks)
    m = re.search(r"VERIFICATION:- (\w+)", out)
    res["verdict"] = m.group(1) if m else None
    m = re.search(r"Verification Time: ([0-9.]+)s", out)
    res["verification_time_s"] = float(m.group(1)) if m else None
    res["stubs"] = re.findall(r"- Stub: (.*)", out) + re.findall(r"Stub(?:bing)?: (.*)", out)
    # concrete playback
    res["playbacks"] = []
    for blk in re.finditer(r"/// Check for `(\w+)`: \"(.*?)\"\n.*?let concrete_vals: Vec<Vec<u8>> = vec!\[(.*?)\];", out, re.S):
        vals = []
        for v in re.findall(r"vec!\[([0-9, ]*)\]", blk.group(3)):
            vals.append([int(x) for x in v.replace(" ", "").split(",") if x != ""])
        res["playbacks"].append({"class": blk.group(1), "description": blk.group(2), "vals": vals})
    fails = [p for p in res["playbacks"] if p["class"] != "cover" and not any(p["description"].startswith(k) for k in IGNORED_CLASSES)]
    if fails: res["concrete_vals"] = fails[0]["vals"]; res["concrete_for"] = fails[0]["description"]
    res["fail_playbacks"] = fails
    return res


def classify(parsed):
    """-> dict(counted, discharged, refuted[], undetermined[], covers_unsat[], ignored)"""
    counted = discharged = ignored = 0
    refuted, undet, covers_bad, covers_ok = [], [], [], 0
    for c in parsed["checks"]:
        d = c["description"]
        if c["status"] in ("SATISFIED",): covers_ok += 1; continue
        if c["status"] in ("UNSATISFIABLE",) or (d.startswith("cover") and c["status"] == "UNREACHABLE"):
            covers_bad.append(c); continue
        if any(d.startswith(k) for k in IGNORED_CLASSES): ignored += 1; continue
        counted += 1
        if c["status"] == "SUCCESS" or c["status"] == "UNREACHABLE": discharged += 1
        elif c["status"] == "FAILURE": refuted.append(c)
        else: undet.append(c)
    return {"counted": counted, "discharged": discharged, "ignored": ignored, "refuted": refuted,
            "undetermined": undet, "covers_unsat": covers_bad, "covers_ok": covers_ok}


def run_harness(ov, name, solver=None, timeout=600, unwind=None, extra=None, mem_gb=32, playback=False, should_panic=False):
    """playback=False is the deciding run; concrete playback makes CBMC orders of magnitude slower (measured: 0.3 s -> 67 s
    on the same harness), so it is requested only in a second run of a harness that was refuted."""
    cmd = ["cargo", "kani", "-Z", "function-contracts", "-Z", "stubbing", "--harness", name, "--exact", "--output-format", "regular"]
    if playback: cmd += ["-Z", "concrete-playback", "--concrete-playback=print"]
    if solver: cmd += ["--solver", solver]
    if unwind is not None: cmd += ["--default-unwind", str(unwind)]
    if extra: cmd += extra
    env = dict(os.environ, CARGO_NET_OFFLINE="true")
    t0 = time.time()
    pre = "ulimit -v %d; " % (mem_gb * 1024 * 1024)
    try:
        p = subprocess.run(["bash", "-c", pre + "exec " + " ".join("'%s'" % c for c in cmd)], cwd=ov, env=env,
                           capture_output=True, text=True, timeout=timeout, start_new_session=True)
        out, rc = p.stdout + "\n" + p.stderr, p.returncode
        timed_out = False
    except subprocess.TimeoutExpired as e:
        out = ((e.stdout or b"").decode(errors="replace") if isinstance(e.stdout, bytes) else (e.stdout or "")) + "\nTIMEOUT"
        rc, timed_out = 124, True
        subprocess.run(["pkill", "-x", "cbmc"], capture_output=True)
    parsed = parse_output(out)
    cl = classify(parsed)
    res = {"harness": name, "cmd": " ".join(cmd), "rc": rc, "wall_s": round(time.time() - t0, 2), "timed_out": timed_out,
           "verdict": parsed["verdict"], "verification_time_s": parsed["verification_time_s"], "stubs": parsed["stubs"],
           "concrete_vals": parsed.get("concrete_vals"), "concrete_for": parsed.get("concrete_for"),
           "fail_playbacks": parsed.get("fail_playbacks", []), **cl}
    if parsed["verdict"] is None and not timed_out:
        res["error_tail"] = out[-1500:]
    # status
    if timed_out or parsed["verdict"] is None: res["status"] = "infra"
    elif should_panic:
        # #[kani::should_panic] harness: Kani itself decides (SUCCESSFUL = it panicked as required and nothing else failed)
        res["status"] = "discharged" if parsed["verdict"] == "SUCCESSFUL" else "refuted"
        if res["status"] == "discharged": cl["refuted"] = []; res["refuted"] = []; res["discharged"] = res["counted"]
    elif cl["refuted"]: res["status"] = "refuted"
    elif parsed.get("unparsed_checks"): res["status"] = "infra"; res["error_tail"] = "%d check block(s) of the Kani output were not parsed" % parsed["unparsed_checks"]
    elif cl["undetermined"] or cl["covers_unsat"]: res["status"] = "infra"
    elif cl["counted"] == 0: res["status"] = "infra"
    else: res["status"] = "discharged"
    for k in ("refuted", "undetermined", "covers_unsat"):
        res[k] = [{"name": c["name"], "description": c["description"][:300], "location": c["location"][:200]} for c in res[k]][:12]
    return res


def prebuild(ov, any_harness, timeout=900):
    """compile the overlay once so that the parallel per-harness runs hit a warm cache"""
    env = dict(os.environ, CARGO_NET_OFFLINE="true")
    p = subprocess.run(["cargo", "kani", "-Z", "function-contracts", "-Z", "stubbing", "--only-codegen", "--harness", any_harness, "--exact"],
                       cwd=ov, env=env, capture_output=True, text=True, timeout=timeout)
    return p.returncode, (p.stdout + p.stderr)[-3000:]

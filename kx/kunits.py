"""Unit tables of the Kani pipeline.

CTORS drives three things from one place: the `kani::ensures` attribute inserted above the real constructor in
the overlay, the `proof_for_contract` harness generated for every float instantiation, and the argument
schema used to decode a counterexample for native replay."""

STUB_NAMES = {  # logical name -> (f64 libm fn, f32 libm fn, contract fn f64, contract fn f32)
    "log": ("libm::log", "libm::logf", "lc::log", "lc::logf"),
    "exp": ("libm::exp", "libm::expf", "lc::exp", "lc::expf"),
    "pow": ("libm::pow", "libm::powf", "lc::pow", "lc::powf"),
    "tan": ("libm::tan", "libm::tanf", "lc::tan", "lc::tanf"),
    "sqrt": ("libm::sqrt", "libm::sqrtf", "lc::sqrt", "lc::sqrtf"),
    "floor": ("libm::floor", "libm::floorf", "lc::floor", "lc::floorf"),
    "ceil": ("libm::ceil", "libm::ceilf", "lc::ceil", "lc::ceilf"),
    "fabs": ("libm::fabs", "libm::fabsf", "lc::fabs", "lc::fabsf"),
    "sqrt_c": ("libm::sqrt", "libm::sqrtf", "lc::sqrt_c", "lc::sqrtf_c"),
}
EXACT_STUBS = ("sqrt", "floor", "ceil", "fabs")


def stub_attrs(names, fl):
    out = []
    for n in names:
        s = STUB_NAMES[n]
        # a generic float constructor instantiated at f32 may still call f64 libm functions (F::from(..)), stub both widths
        out.append("#[kani::stub(%s, super::%s)]" % (s[0], s[2]))
        out.append("#[kani::stub(%s, super::%s)]" % (s[1], s[3]))
    return out


def G(file, ty):          # impl header regex for `impl<F> Ty<F>`
    return {"file": file, "path": [r"^impl\s*<\s*F\b[^>]*>\s*%s\s*<\s*F\s*>" % ty]}


CTORS = [
    dict(id="cauchy_new", ty="Cauchy", fn="new", args=[("median", "F"), ("scale", "F")], post="cauchy_new_post(median, scale, r)", **G("src/cauchy.rs", "Cauchy")),
    dict(id="pareto_new", ty="Pareto", fn="new", args=[("scale", "F"), ("shape", "F")], post="pareto_new_post(scale, shape, r)", **G("src/pareto.rs", "Pareto")),
    dict(id="weibull_new", ty="Weibull", fn="new", args=[("scale", "F"), ("shape", "F")], post="weibull_new_post(scale, shape, r)", **G("src/weibull.rs", "Weibull")),
    dict(id="gumbel_new", ty="Gumbel", fn="new", args=[("location", "F"), ("scale", "F")], post="gumbel_new_post(location, scale, r)", **G("src/gumbel.rs", "Gumbel")),
    dict(id="frechet_new", ty="Frechet", fn="new", args=[("location", "F"), ("scale", "F"), ("shape", "F")], post="frechet_new_post(location, scale, shape, r)", **G("src/frechet.rs", "Frechet")),
    dict(id="triangular_new", ty="Triangular", fn="new", args=[("min", "F"), ("max", "F"), ("mode", "F")], post="triangular_new_post(min, max, mode, r)", **G("src/triangular.rs", "Triangular")),
    dict(id="normal_new", ty="Normal", fn="new", args=[("mean", "F"), ("std_dev", "F")], post="normal_new_post(mean, std_dev, r)", **G("src/normal.rs", "Normal")),
    dict(id="normal_from_mean_cv", ty="Normal", fn="from_mean_cv", args=[("mean", "F"), ("cv", "F")], post="normal_from_mean_cv_post(mean, cv, r)", solver="kissat", floats=["f32"],
         note="the postcondition re-evaluates cv*mean (a float multiplier miter): f32 only", **G("src/normal.rs", "Normal")),
    dict(id="lognormal_new", ty="LogNormal", fn="new", args=[("mu", "F"), ("sigma", "F")], post="lognormal_new_post(mu, sigma, r)", **G("src/normal.rs", "LogNormal")),
    dict(id="lognormal_from_mean_cv", ty="LogNormal", fn="from_mean_cv", args=[("mean", "F"), ("cv", "F")], post="lognormal_from_mean_cv_post(mean, cv, r)", stubs=["log", "sqrt_c"], **G("src/normal.rs", "LogNormal")),
    dict(id="exp_new", ty="Exp", fn="new", args=[("lambda", "F")], post="exp_new_post(lambda, r)", **G("src/exponential.rs", "Exp")),
    dict(id="gamma_new", ty="Gamma", fn="new", args=[("shape", "F"), ("scale", "F")], post="gamma_new_post(shape, scale, r)", stubs=["sqrt_c"], **G("src/gamma.rs", "Gamma")),
    # modular: the callee constructor is replaced by its VERIFIED contract (kani::stub_verified), so these close in seconds
    dict(id="chi_squared_new", ty="ChiSquared", fn="new", args=[("k", "F")], post="chi_squared_new_post(k, r)", stub_verified=["Gamma::<$F>::new"], **G("src/chi_squared.rs", "ChiSquared")),
    dict(id="student_t_new", ty="StudentT", fn="new", args=[("nu", "F")], post="chi_squared_new_post(nu, r)", stub_verified=["ChiSquared::<$F>::new"], **G("src/student_t.rs", "StudentT")),
    dict(id="fisher_f_new", ty="FisherF", fn="new", args=[("m", "F"), ("n", "F")], post="fisher_f_new_post(m, n, r)", stub_verified=["ChiSquared::<$F>::new"], **G("src/fisher_f.rs", "FisherF")),
    dict(id="beta_new", ty="Beta", fn="new", args=[("alpha", "F"), ("beta", "F")], post="beta_new_post(alpha, beta, r)", stubs=["sqrt_c"], timeout=900, **G("src/beta.rs", "Beta")),
    dict(id="poisson_new", ty="Poisson", fn="new", args=[("lambda", "F")], post="poisson_new_post(lambda, F::from(Self::MAX_LAMBDA).unwrap(), r)", stubs=["exp", "sqrt_c", "floor", "log"], timeout=900, **G("src/poisson.rs", "Poisson")),
    dict(id="skew_normal_new", ty="SkewNormal", fn="new", args=[("location", "F"), ("scale", "F"), ("shape", "F")], post="skew_normal_new_post(location, scale, shape, r)", **G("src/skew_normal.rs", "SkewNormal")),
    dict(id="inverse_gaussian_new", ty="InverseGaussian", fn="new", args=[("mean", "F"), ("shape", "F")], post="inverse_gaussian_new_post(mean, shape, r)", **G("src/inverse_gaussian.rs", "InverseGaussian")),
    dict(id="nig_new", ty="NormalInverseGaussian", fn="new", args=[("alpha", "F"), ("beta", "F")], post="nig_new_post(alpha, beta, r)", stubs=["sqrt_c", "fabs"], timeout=900, **G("src/normal_inverse_gaussian.rs", "NormalInverseGaussian")),
    dict(id="zeta_new", ty="Zeta", fn="new", args=[("s", "F")], post="zeta_new_post(s, r)", stubs=["pow"], **G("src/zeta.rs", "Zeta")),
    dict(id="zipf_new", ty="Zipf", fn="new", args=[("n", "F"), ("s", "F")], post="zipf_new_post(n, s, r)", stubs=["pow", "log"], **G("src/zipf.rs", "Zipf")),
]


def contracts():
    out = []
    for c in CTORS:
        out.append({"file": c["file"], "path": c["path"], "fn": c["fn"],
                    "ensures": ["|r| crate::verif_kani::spec::%s" % c["post"]]})
    return out


def harness_name(c, fl):
    return "c04_%s%s" % (c["id"], "_" + fl if fl else "")


def gen_c04():
    """Rust source of the generated proof_for_contract harnesses"""
    L = ["//! GENERATED by kx/units.py from the CTORS table: one proof_for_contract harness per constructor and float type.",
         "//! Arguments are unconstrained (every bit pattern); the contract is the kani::ensures attached to the real constructor.",
         "use super::rd;", "use super::lc;", ""]
    for c in CTORS:
        for fl in c.get("floats", ["f64", "f32"]):
            tyargs = "::<%s>" % fl if fl else ""
            L.append("#[kani::proof_for_contract(rd::%s%s::%s)]" % (c["ty"], tyargs, c["fn"]))
            L += stub_attrs(c.get("stubs", []), fl)
            for sv in c.get("stub_verified", []):
                L.append("#[kani::stub_verified(rd::%s)]" % sv.replace("$F", fl))
            L.append("fn %s() {" % harness_name(c, fl))
            call = []
            for a, t in c["args"]:
                t2 = fl if t == "F" else t
                L.append("    let %s: %s = kani::any();" % (a, t2))
                call.append(a)
            L.append("    let r = rd::%s%s::%s(%s);" % (c["ty"], tyargs, c["fn"], ", ".join(call)))
            L.append("    kani::cover!(r.is_ok(), \"Ok reachable\");")
            L.append("    kani::cover!(r.is_err(), \"Err reachable\");")
            L.append("}")
            L.append("")
    return "\n".join(L)


def c04_units():
    out = []
    for c in CTORS:
        for fl in c.get("floats", ["f64", "f32"]):
            out.append({"harness": "verif_kani::c04_gen::" + harness_name(c, fl), "id": harness_name(c, fl), "property": ["C04"],
                        "kind": "proof", "tier": c.get("tier") or ("quick" if fl in ("f64", None) else "thorough"),
                        "solver": c.get("solver"), "timeout": c.get("timeout", 600),
                        "target": "%s::%s" % (c["ty"], c["fn"]), "file": c["file"], "float": fl,
                        "contract": "kani::ensures(|r| spec::%s)" % c["post"],
                        "schema": [(a, (fl if t == "F" else t)) for a, t in c["args"]],
                        "replay": {"kind": "ctor", "id": c["id"], "float": fl},
                        "stubs": c.get("stubs", []), "stub_verified": c.get("stub_verified", [])})
    return out


CHILD_MODULES = {"src/exponential.rs": "child_exponential.rs", "src/gamma.rs": "child_gamma.rs", "src/chi_squared.rs": "child_chi_squared.rs", "src/beta.rs": "child_beta.rs", "src/weibull.rs": "child_weibull.rs", "src/pareto.rs": "child_pareto.rs", "src/multi/dirichlet.rs": "child_dirichlet.rs", "src/hypergeometric.rs": "child_hypergeo.rs"}


def plain(hid, mod, prop, target, file, schema, obligation, kind="proof", tier="quick", timeout=600, solver=None, replay=None, bound=None, extra=None, stubs=None):
    return {"harness": "verif_kani::%s::%s" % (mod, hid), "id": hid, "property": prop, "kind": kind, "tier": tier, "solver": solver,
            "timeout": timeout, "target": target, "file": file, "contract": obligation, "schema": schema, "replay": replay, "bound": bound,
            "extra": extra, "stubs": stubs or []}


C04_EXTRA = [
    plain("c04_binomial_new", "c04_extra", ["C04"], "Binomial::new", "src/binomial.rs", [("n", "u64"), ("p", "f64")],
          "assert!(spec::binomial_new_post(n, p, &r)) + internal f64_to_u64 assertion, all (n, p)", timeout=900, replay={"kind": "ctor", "id": "binomial_new", "float": None}),
    plain("c04_geometric_new_classification", "c04_extra", ["C04"], "Geometric::new", "src/geometric.rs", [("p", "f64")],
          "assert!(spec::geometric_new_post(p, &r)), all p; squaring loop cut after one iteration", kind="bounded", extra=["--no-unwinding-checks"],
          bound="loop `while pi > 0.5` unwound once, no unwinding assertion: Err/Ok classification and the k = 0 paths are complete, loop termination and k <= 63 are not established",
          replay={"kind": "ctor", "id": "geometric_new", "float": None}),
    plain("c04_pert_with_mode_f64", "c04_extra", ["C04"], "PertBuilder::with_mode", "src/pert.rs", [("min", "f64"), ("max", "f64"), ("shape", "f64"), ("mode", "f64")],
          "assert!(spec::pert_with_mode_post(min, max, shape, mode, &r)), all arguments", timeout=900, replay={"kind": "ctor", "id": "pert_with_mode", "float": "f64"}),
    plain("c04_pert_with_mode_f32", "c04_extra", ["C04"], "PertBuilder::with_mode", "src/pert.rs", [("min", "f32"), ("max", "f32"), ("shape", "f32"), ("mode", "f32")],
          "assert!(spec::pert_with_mode_post(min, max, shape, mode, &r)), all arguments", tier="thorough", timeout=900, replay={"kind": "ctor", "id": "pert_with_mode", "float": "f32"}),
]


def _c03_one_draw():
    out = []
    table = [
        ("cauchy", "Cauchy", "src/cauchy.rs", [("median", "F"), ("scale", "F")], ["tan"], "!x.is_nan() && words_consumed == 1"),
        ("pareto", "Pareto", "src/pareto.rs", [("scale", "F"), ("shape", "F")], ["pow"], "!x.is_nan() && x >= scale && words_consumed == 1"),
        ("weibull", "Weibull", "src/weibull.rs", [("scale", "F"), ("shape", "F")], ["pow", "log"], "!x.is_nan() && x >= 0 && words_consumed == 1"),
        ("gumbel", "Gumbel", "src/gumbel.rs", [("location", "F"), ("scale", "F")], ["log"], "x.is_finite() && words_consumed == 1 (word making the uniform exactly 1 excluded: known finding)"),
        ("frechet", "Frechet", "src/frechet.rs", [("location", "F"), ("scale", "F"), ("shape", "F")], ["pow", "log"], "!x.is_nan() && x >= location && words_consumed == 1 (word making the uniform exactly 1 excluded: known finding)"),
        ("triangular", "Triangular", "src/triangular.rs", [("min", "F"), ("max", "F"), ("mode", "F")], ["sqrt_c"], "!x.is_nan() && words_consumed == 1"),
    ]
    for name, ty, file, args, stubs, obl in table:
        for fl in ("f64", "f32"):
            out.append(plain("c03_%s_%s" % (name, fl), "c03", ["C03"], "%s::sample" % ty, file,
                             [(a, fl) for a, _ in args] + [("words", "words2")],
                             "for all parameters in E and all RNG words: " + obl, tier="quick" if (fl == "f64") != (name == "triangular") else "thorough",
                             timeout=900, stubs=stubs, replay={"kind": "sampler", "id": name, "float": fl}))
    return out


C03_UNITS = _c03_one_draw() + [
    plain("c03_exp_sample_f64", "c03", ["C03"], "Exp::sample", "src/exponential.rs", [("lambda", "f64"), ("words", "words4")],
          "lambda = +0: +inf (documented); lambda in [1e-100, 1e100]: finite, >= 0; never NaN; all words (known Exp1 tail witness excluded)",
          kind="bounded", tier="quick", bound="one iteration of the ziggurat loop (unwind 1, no unwinding assertion)", timeout=3600, extra=["--no-unwinding-checks"],
          stubs=["exp", "log"], replay={"kind": "sampler", "id": "exp", "float": "f64"}),
    plain("c03_normal_sample_f64", "c03", ["C03"], "Normal::sample", "src/normal.rs", [("mean", "f64"), ("std_dev", "f64"), ("words", "words4")],
          "|mean|, |std_dev| <= 1e100 (either sign): finite for all words",
          kind="bounded", tier="quick", bound="one iteration of the ziggurat loop; the normal tail loop is cut (rectangle and wedge returns only)", timeout=3600, extra=["--no-unwinding-checks"],
          stubs=["exp", "log"], replay={"kind": "sampler", "id": "normal", "float": "f64"}),
    plain("c03_zipf_step_f64", "c03", ["C03"], "Zipf::sample (one iteration)", "src/zipf.rs", [("n", "f64"), ("s", "f64"), ("words", "words2")],
          "all (n, s) in E, all words: a returned rank is never < 1; debug assertions hold. Upper bound x <= n and NaN-freedom not claimed (need accuracy of powf)",
          kind="bounded", tier="thorough", bound="one iteration of the rejection loop (unwind 1, no unwinding assertion); every iteration starts from the same state", timeout=3600, extra=["--no-unwinding-checks"],
          stubs=["pow", "log", "exp", "floor"], replay={"kind": "sampler", "id": "zipf", "float": "f64"}),
    plain("c03_zeta_step_f64", "c03", ["C03"], "Zeta::sample (one iteration)", "src/zeta.rs", [("s", "f64"), ("words", "words2")],
          "all s in E, all words: the value is >= 1 and not NaN, and finite for s >= 2 (no pole of pow reached); the internal debug_assert!(x >= 1) holds",
          kind="bounded", bound="one iteration of the rejection loop (unwind 1, no unwinding assertion)", timeout=1800, extra=["--no-unwinding-checks"],
          stubs=["pow", "floor"], replay={"kind": "sampler", "id": "zeta", "float": "f64"}),
    dict(plain("kf_gumbel_inf_f64", "c03", ["C03"], "Gumbel::sample", "src/gumbel.rs", [], "pinned known finding: Gumbel(0,1) at word u64::MAX is +inf", stubs=["log"]), expect="refuted"),
    dict(plain("kf_frechet_neg_inf_f64", "c03", ["C03"], "Frechet::sample", "src/frechet.rs", [], "pinned known finding: Frechet(0,1,1) at word u64::MAX is -inf", stubs=["log", "pow"]), expect="refuted"),
]


def _c06():
    out = []
    for t, T in (("norm", "ZIG_NORM"), ("exp", "ZIG_EXP")):
        for k, (lo, hi) in zip("abcd", ((0, 64), (64, 128), (128, 192), (192, 256))):
            out.append(plain("c06_%s_table_%s" % (t, k), "c06", ["C06"], "%s_X / %s_F / %s_R entries %d..%d" % (T, T, T, lo, hi), "src/ziggurat_tables.rs", [],
                             "X[256]==0, F[256]==1, X[1]==R, X strictly decreasing, F strictly increasing, |F[i]-pdf(X[i])|<=1e-14, layer areas equal v=X[0]*F[1] to 1e-8 rel"
                             + (", base strip + tail == v" if k == "a" else "") + " (concrete constants: exhaustive)", timeout=1200))
    out.append(plain("c06_normal_step", "c06", ["C06", "C03"], "utils::ziggurat + StandardNormal::sample (one iteration)", "src/utils.rs", [("words", "words4")],
                     "for every word: not NaN; |x| <= X[i] for i>0; i==0: |x| <= X[0] or |x| >= R; sign(x) == sign(u)", kind="bounded", tier="thorough", timeout=3600, extra=["--no-unwinding-checks"],
                     bound="one execution of the ziggurat loop body and of the normal tail loop body (unwind 1, no unwinding assertion); inductive because every iteration starts from the same state (&self immutable, locals re-assigned)",
                     stubs=["exp", "log"], replay={"kind": "sampler", "id": "standard_normal", "float": "f64"}))
    for nm, sign in (("c06_normal_tail_pos", "+"), ("c06_normal_tail_neg", "-")):
        out.append(plain(nm, "c06", ["C06", "C03"], "StandardNormal::sample tail branch (zero_case), u %s" % sign, "src/normal.rs", [("tailwords", "words2")],
                         "for every pair of tail words: not NaN, |x| >= R, sign(x) == sign(u) (first word fixed: layer 0, |u| at its extreme)", kind="bounded", timeout=1800, extra=["--no-unwinding-checks"],
                         bound="one iteration of the tail loop (unwind 2, no unwinding assertion); first word concrete", stubs=["exp", "log"],
                         replay={"kind": "sampler", "id": nm[4:], "float": "f64"}))
    out.append(plain("c06_exp_tail", "c06", ["C06", "C03"], "Exp1::sample tail branch (zero_case)", "src/exponential.rs", [("tailwords", "words2")],
                     "first word fixed (layer 0, u -> 1): for every following word the value is >= R, not NaN, and exactly one further word is drawn", kind="bounded", timeout=900, extra=["--no-unwinding-checks"],
                     bound="first word concrete; one pass through the ziggurat loop body", stubs=["exp", "log"]))
    out.append(plain("c06_exp_step", "c06", ["C06", "C03"], "utils::ziggurat + Exp1::sample (one iteration)", "src/utils.rs", [("words", "words4")],
                     "for every word: not NaN; x > 0; x <= X[i] for i>0; i==0: x <= X[0] or x >= R; finite unless the tail uniform is exactly 0 (known finding)", kind="bounded", tier="thorough", timeout=3600, extra=["--no-unwinding-checks"],
                     bound="one execution of the ziggurat loop body (unwind 1, no unwinding assertion); inductive because every iteration starts from the same state",
                     stubs=["exp", "log"], replay={"kind": "sampler", "id": "exp1", "float": "f64"}))
    out.append(dict(plain("kf_exp1_tail_inf", "c06", ["C03"], "Exp1::sample", "src/exponential.rs", [], "pinned known finding: Exp1 tail returns +inf when its uniform draw is exactly 0",
                          extra=["--no-unwinding-checks"], stubs=["exp", "log"]), expect="refuted"))
    return out


C06_UNITS = _c06()


C07_UNITS = [
    plain("c07_normal_from_zscore_f32", "c07", ["C07"], "Normal::from_zscore", "src/normal.rs", [("mean", "f32"), ("std_dev", "f32"), ("z", "f32")],
          "from_zscore(z) == mean + std_dev * z (equal, or both NaN) for all mean, finite std_dev of either sign, z", solver="kissat", timeout=1200,
          replay={"kind": "sampler", "id": "normal_from_zscore", "float": "f32"}),
    plain("c07_lognormal_from_zscore_f32", "c07", ["C07"], "LogNormal::from_zscore", "src/normal.rs", [("mu", "f32"), ("sigma", "f32"), ("z", "f32")],
          "from_zscore(z) == exp(mu + sigma * z) (memoised exp contract)", solver="kissat", timeout=1200, stubs=["exp"],
          replay={"kind": "sampler", "id": "lognormal_from_zscore", "float": "f32"}),
    plain("c07_cauchy_affine_f32", "c07", ["C07"], "Cauchy::sample", "src/cauchy.rs", [("median", "f32"), ("scale", "f32"), ("words", "words1")],
          "Cauchy(median, scale)(w) == median + scale * Cauchy(0,1)(w); one word each", solver="kissat", timeout=2400, stubs=["tan"], tier="thorough",
          replay={"kind": "sampler", "id": "cauchy_affine", "float": "f32"}),
    plain("c07_gumbel_affine_f32", "c07", ["C07"], "Gumbel::sample", "src/gumbel.rs", [("location", "f32"), ("scale", "f32"), ("words", "words1")],
          "Gumbel(location, scale)(w) == location + scale * Gumbel(0,1)(w); one word each", solver="kissat", timeout=1800, stubs=["log"],
          replay={"kind": "sampler", "id": "gumbel_affine", "float": "f32"}),
    plain("c07_frechet_affine_shape2_f32", "c07", ["C07"], "Frechet::sample", "src/frechet.rs", [("location", "f32"), ("scale", "f32"), ("words", "words1")],
          "Frechet(location, scale, 2)(w) == location + scale * Frechet(0,1,2)(w); one word each", solver="kissat", timeout=1800, stubs=["log", "pow"], kind="bounded",
          bound="shape fixed to 2.0 (a symbolic shape adds a divider miter that does not close); location, scale and the word are unconstrained inside E",
          replay={"kind": "sampler", "id": "frechet_affine_shape2", "float": "f32"}),
    plain("c07_frechet_affine_shape075_f32", "c07", ["C07"], "Frechet::sample", "src/frechet.rs", [("location", "f32"), ("scale", "f32"), ("words", "words1")],
          "Frechet(location, scale, 0.75)(w) == location + scale * Frechet(0,1,0.75)(w); one word each", solver="kissat", timeout=1800, stubs=["log", "pow"], kind="bounded", tier="thorough",
          bound="shape fixed to 0.75; location, scale and the word are unconstrained inside E",
          replay={"kind": "sampler", "id": "frechet_affine_shape075", "float": "f32"}),
]


WEIGHT_UNITS = [
    plain("weight_checked_add_assign_%s" % t, "weights", ["C09", "C10", "C04"], "rand::distr::weighted::Weight::checked_add_assign for %s" % t, "(rand 0.10.2) src/distr/weighted/mod.rs",
          [("a", t), ("b", t)], "Ok iff a + b fits; then *self == a + b; else *self unchanged - the contract the Verus tree proof ASSUMES, discharged on rand's real impl for all pairs",
          tier="quick" if t in ("u64", "i32") else "thorough")
    for t in ("u8", "u16", "u32", "u64", "u128", "usize", "i8", "i16", "i32", "i64", "i128", "isize")
] + [
    plain("c04_tree_f32_invalid_weight_rejected", "weights", ["C04", "C09"], "WeightedTreeIndex<f32>::push / update", "src/weighted/weighted_tree.rs", [("w0", "f32"), ("w1", "f32"), ("x", "f32")],
          "2-node f32 tree, every NaN or negative weight: push/update return Err(InvalidWeight) and leave the tree unchanged", kind="bounded", bound="tree of exactly 2 nodes", timeout=900),
]
WEIGHT_UNITS[-1]["tier_by_prop"] = {"C09": "thorough"}
_RR_TYPES = ("u8", "u16", "i8", "i16")     # sample type u32 (32x32 symbolic multiplier: 6-100 s).  u32 did not close in 13 min; 64/128-bit sample types not reached
WEIGHT_UNITS += [
    plain("rand_random_range_%s" % t, "weights", ["C10"], "rand::RngExt::random_range::<%s> (UniformInt::sample_single, Canon's method)" % t, "(rand 0.10.2) src/distr/uniform_int.rs",
          [("low", t), ("high", t), ("words", "words4")], "every low < high, every word: low <= t < high - the contract the Verus tree proof ASSUMES for the target draw, discharged on rand's real code (loop-free: complete)",
          tier="quick" if t in ("u8", "i8") else "thorough", solver="kissat", timeout=1800)
    for t in _RR_TYPES
] + [
    plain("rand_uniform_sample_%s" % t, "weights", ["C08"], "rand::distr::Uniform::<%s>::new / sample (Lemire's method)" % t, "(rand 0.10.2) src/distr/uniform_int.rs",
          [("low", t), ("high", t), ("words", "words4")], "Uniform::new(low, high) is Ok iff low < high; every word: low <= sample < high - the contract the Verus alias proof ASSUMES for both draws, discharged on rand's real code",
          kind="bounded", bound="one iteration of Lemire's rejection loop (stateless loop: every iteration draws a fresh word)", extra=["--no-unwinding-checks"],
          tier="quick" if t in ("u8", "i8") else "thorough", solver="kissat", timeout=1800)
    for t in _RR_TYPES
]      # 2-4 minutes: quick for C04, thorough for C09 (whose quick tier is the 15 s Verus proof)
WEIGHT_UNITS += [
    dict(plain("kf_tree_f32_rounding_panics", "weights", ["C10"], "WeightedTreeIndex<f32>::try_sample", "src/weighted/weighted_tree.rs", [],
               "pinned known finding: WeightedTreeIndex::<f32>::new([2.5449841e19, 3.5183273e16]) is_valid() but try_sample panics for word 0xffffffff"), expect="refuted"),
    dict(plain("kf_tree_f32_subnormal_total_panics", "weights", ["C10"], "WeightedTreeIndex<f32>::try_sample", "src/weighted/weighted_tree.rs", [],
               "pinned known finding: WeightedTreeIndex::<f32>::new([6.32e-43, -0.0]) is_valid() but try_sample panics for word 4293766655"), expect="refuted"),
]


def child(hid, modpath, prop, target, file, schema, obligation, **kw):
    u = plain(hid, "x", prop, target, file, schema, obligation, **kw)
    u["harness"] = "%s::verif_child::%s" % (modpath, hid)
    return u


C11_UNITS = [
    child("c11_dirichlet_new_len2", "multi::dirichlet", ["C11", "C04"], "Dirichlet::new", "src/multi/dirichlet.rs", [("alpha", "f64"), ("alpha1", "f64")],
          "every 2-vector (all bit patterns): Err iff a documented per-entry condition holds, variant valid, Ok => sample_len()==2 and Beta method iff all alpha <= 0.1; no panic",
          kind="bounded", bound="alpha.len() == 2", timeout=1800, stubs=["sqrt_c"]),
    child("c11_dirichlet_new_too_short", "multi::dirichlet", ["C11", "C04"], "Dirichlet::new", "src/multi/dirichlet.rs", [], "lengths 0 and 1 (any content) -> Err(AlphaTooShort)", timeout=600),
    child("c11_from_beta_structure_len3", "multi::dirichlet", ["C11"], "DirichletFromBeta::new", "src/multi/dirichlet.rs", [("a0", "f64"), ("a1", "f64"), ("a2", "f64")],
          "n = 3, all alpha in [1e-3, 0.1]^3: sampler j is Beta with parameter set {alpha_j, right-to-left float sum of alpha_{j+1..}} bit for bit; n-1 samplers; sample_len()==3",
          kind="bounded", bound="alpha.len() == 3", timeout=3600, tier="thorough", stubs=["sqrt_c"]),
    child("c11_sample_to_slice_wrong_len_panics", "multi::dirichlet", ["C11"], "Dirichlet::sample_to_slice", "src/multi/dirichlet.rs", [],
          "output.len() != sample_len() panics (should_panic harness)", kind="bounded", bound="one concrete instance (len 2 distribution, len 3 buffer)", timeout=900, stubs=["sqrt_c"]),
]
C11_UNITS[-1]["should_panic"] = True

C11_UNITS[0]["tier_by_prop"] = {"C04": "thorough"}     # 8 minutes: part of C11's quick tier, of C04's thorough tier
C11_UNITS += [
]


HYPER_UNITS = [
    child("c03_hypergeo_hin_support", "hypergeometric", ["C03"], "Hypergeometric::sample (inverse-transform branch)", "src/hypergeometric.rs",
          [("N", "u64"), ("K", "u64"), ("n", "u64")],
          "every struct satisfying the invariant established by `new`, every value of the float initial_p, every uniform draw: the result lies in [max(0, n+K-N), min(n, K)]",
          kind="bounded", bound="k = min(n, N-n) <= 3 (loop unwound 5 times with unwinding assertion); N <= 2^40", timeout=1800,
          replay={"kind": "search", "bin": "hgsearch", "args": ["40", "4"]}),
]


C07_CHILD_UNITS = []
for _t, _ty, _field, _expr in (("weibull", "Weibull", "inv_shape", "1/shape"), ("pareto", "Pareto", "inv_neg_shape", "-1/shape")):
    C07_CHILD_UNITS.append(child("c07_%s_scale_f32" % _t, _t, ["C07"], "%s::sample" % _ty, "src/%s.rs" % _t, [("scale", "f32"), ("shape", "f32"), ("words", "words1")],
                                 "%s(scale, shape)(w) == scale * %s(1, shape)(w) (run B shares the derived field); one word each" % (_ty, _ty), solver="kissat", timeout=2400, tier="quick" if _t == "pareto" else "thorough",
                                 stubs=["pow"] + (["log"] if _t == "weibull" else []), replay={"kind": "sampler", "id": "%s_scale" % _t, "float": "f32"}))


COMPOSITE_UNITS = []
for _n, _ty, _file, _args, _obl in [('lognormal', 'LogNormal', 'src/normal.rs', [('mu', 'f64'), ('sigma', 'f64')], '!NaN && x >= 0'), ('skew_normal', 'SkewNormal', 'src/skew_normal.rs', [('location', 'f64'), ('scale', 'f64'), ('shape', 'f64')], '!NaN'), ('gamma', 'Gamma', 'src/gamma.rs', [('shape', 'f64'), ('scale', 'f64')], '!NaN && x >= 0'), ('chi_squared', 'ChiSquared', 'src/chi_squared.rs', [('k', 'f64')], '!NaN && x >= 0'), ('beta', 'Beta', 'src/beta.rs', [('alpha', 'f64'), ('beta', 'f64')], '!NaN && 0 <= x <= 1'), ('poisson', 'Poisson', 'src/poisson.rs', [('lambda', 'f64')], '!NaN && x >= 0 (only the Knuth branch, lambda < 12, returns within one iteration)'), ('pert', 'Pert', 'src/pert.rs', [('min', 'f64'), ('max', 'f64'), ('mode', 'f64')], '!NaN && x >= min')]:
    COMPOSITE_UNITS.append(plain("c03_%s_sample_f64" % _n, "c03", ["C03"], "%s::sample" % _ty, _file, [("words", "words8")] + _args,
        "parameters in E, all words: " + _obl, kind="bounded", tier="quick" if _n == "lognormal" else "thorough", timeout=3600, extra=["--no-unwinding-checks"],
        bound="one iteration of every loop on the path (rejection loop and the ziggurat loop inside it): unwind 1, no unwinding assertion",
        stubs=["exp", "log", "pow", "sqrt_c", "floor"], replay={"kind": "sampler", "id": _n, "float": "f64"}))


def all_units():
    return c04_units() + C04_EXTRA + C03_UNITS + COMPOSITE_UNITS + C06_UNITS + C07_UNITS + C07_CHILD_UNITS + WEIGHT_UNITS + C11_UNITS + HYPER_UNITS


# ------------------------------------------------------------------ native replay dispatcher (generated Rust)
EXTRA_CTOR_REPLAY = [
    # id, float, args [(name, ty)], call expression, post expression
    ("binomial_new", None, [("n", "u64"), ("p", "f64")], "rd::Binomial::new(n, p)", "binomial_new_post(n, p, &r)"),
    ("geometric_new", None, [("p", "f64")], "rd::Geometric::new(p)", "geometric_new_post(p, &r)"),
    ("pert_with_mode", "f64", [("min", "f64"), ("max", "f64"), ("shape", "f64"), ("mode", "f64")], "rd::Pert::<f64>::new(min, max).with_shape(shape).with_mode(mode)", "pert_with_mode_post(min, max, shape, mode, &r)"),
    ("pert_with_mode", "f32", [("min", "f32"), ("max", "f32"), ("shape", "f32"), ("mode", "f32")], "rd::Pert::<f32>::new(min, max).with_shape(shape).with_mode(mode)", "pert_with_mode_post(min, max, shape, mode, &r)"),
    ("hypergeometric_new", None, [("total", "u64"), ("feature", "u64"), ("sample", "u64")], "rd::Hypergeometric::new(total, feature, sample)", "hypergeometric_new_post(total, feature, sample, &r)"),
]


def gen_replay_ctor():
    L = ["// GENERATED by kx/kunits.py (gen_replay_ctor): native evaluation of the constructor contracts on the real crate.",
         "use crate::rd;", "use crate::spec;", "",
         "pub fn replay_ctor(id: &str, fl: &str, a: &[u64]) -> Option<(bool, String)> {", "    match (id, fl) {"]

    def arm(cid, fl, args, call, post):
        L.append("        (\"%s\", \"%s\") => {" % (cid, fl or "-"))
        L.append("            if a.len() < %d { return None; }" % len(args))
        for i, (n, t) in enumerate(args):
            if t == "f64": L.append("            let %s = f64::from_bits(a[%d]);" % (n, i))
            elif t == "f32": L.append("            let %s = f32::from_bits(a[%d] as u32);" % (n, i))
            else: L.append("            let %s = a[%d] as %s;" % (n, i, t))
        L.append("            let r = std::panic::catch_unwind(|| %s);" % call)
        L.append("            let shown = format!(\"%s with %s\", %s);" % (call.replace("{", "{{").replace("}", "}}").replace('"', "'"), ", ".join("%s={:?}" % n for n, _ in args), ", ".join(n for n, _ in args)))
        L.append("            match r {")
        L.append("                Err(_) => Some((false, format!(\"{} PANICKED\", shown))),")
        L.append("                Ok(r) => { let ok = spec::%s; Some((ok, format!(\"{} = {:?}\", shown, r.as_ref().map(|_| \"Ok(..)\")))) }" % post)
        L.append("            }")
        L.append("        }")

    for c in CTORS:
        for fl in c.get("floats", ["f64", "f32"]):
            args = [(n, fl if t == "F" else t) for n, t in c["args"]]
            post = c.get("post_native", c["post"])
            post = post.replace("F::from(Self::MAX_LAMBDA).unwrap()", "rd::Poisson::<%s>::MAX_LAMBDA as %s" % (fl, fl))
            assert post.endswith(", r)"), post
            post = post[:-4] + ", &r)"
            tyargs = "::<%s>" % fl if fl else ""
            call = "rd::%s%s::%s(%s)" % (c["ty"], tyargs, c["fn"], ", ".join(n for n, _ in args))
            arm(c["id"], fl, args, call, post)
    for cid, fl, args, call, post in EXTRA_CTOR_REPLAY:
        arm(cid, fl, args, call, post)
    L += ["        _ => None,", "    }", "}", ""]
    return "\n".join(L)


# ------------------------------------------------------------------ concrete native units (single inputs that close a stated gap)
NATIVE_UNITS = [
    {"id": "kf_inverse_gaussian_negative", "property": ["C03"], "expect": "refuted", "bin": "igsearch", "args": ["ig", "200000", "2"]},
    {"id": "kf_student_t_nan", "property": ["C03"], "expect": "refuted", "bin": "igsearch", "args": ["t", "40", "2"]},
    {"id": "kf_fisher_f_nan", "property": ["C03"], "expect": "refuted", "bin": "igsearch", "args": ["f", "40", "2"]},
    {"id": "native_hypergeometric_new_N0", "property": ["C04"], "args": ["ctor", "hypergeometric_new", "-", "u64:0", "u64:0", "u64:0"],
     "what": "Hypergeometric::new(0, 0, 0) returns without panicking and satisfies its contract (closes the `requires N >= 1` of the Verus VF-mode unit)"},
]

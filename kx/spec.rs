// Contract predicates shared by (a) the Kani overlay of /repo (attached as `kani::ensures` to the real
// constructors / asserted on real samples) and (b) the native replay crate, which evaluates the very same
// predicate on the real crate for a decoded counterexample.
//
// Every postcondition is written from the DOCUMENTATION of the error variants (rustdoc on the enum variants,
// the constructor docs, and the Display strings), not from the constructor bodies.
// `rd` is an alias of the crate under verification: `use crate as rd;` in the overlay, `use rand_distr as rd;`
// in the replay crate.
#![allow(dead_code, unreachable_patterns, clippy::all)]
use super::rd;
use rd::num_traits::Float;

#[inline] fn nonpos_or_nan<F: Float>(x: F) -> bool { !(x > F::zero()) }
#[inline] fn same<F: Float>(a: F, b: F) -> bool { a == b || (a.is_nan() && b.is_nan()) }

// ------------------------------------------------------------------------------------------------ C04
// shape: result is Err  <=>  some documented condition holds; the variant returned is one whose documented
// condition holds; Ok values report the arguments through their accessors.

/// Cauchy::new — ScaleTooSmall: `scale <= 0` or `nan`.
pub fn cauchy_new_post<F: Float, T>(_median: F, scale: F, r: &Result<T, rd::CauchyError>) -> bool {
    match r { Err(rd::CauchyError::ScaleTooSmall) => nonpos_or_nan(scale), Err(_) => false, Ok(_) => !nonpos_or_nan(scale) }
}

/// Pareto::new — ScaleTooSmall: `scale <= 0` or `nan`; ShapeTooSmall: `shape <= 0` or `nan`.
pub fn pareto_new_post<F: Float, T>(scale: F, shape: F, r: &Result<T, rd::ParetoError>) -> bool {
    match r {
        Err(rd::ParetoError::ScaleTooSmall) => nonpos_or_nan(scale),
        Err(rd::ParetoError::ShapeTooSmall) => nonpos_or_nan(shape),
        Err(_) => false,
        Ok(_) => !nonpos_or_nan(scale) && !nonpos_or_nan(shape),
    }
}

/// Weibull::new — same documentation as Pareto.
pub fn weibull_new_post<F: Float, T>(scale: F, shape: F, r: &Result<T, rd::WeibullError>) -> bool {
    match r {
        Err(rd::WeibullError::ScaleTooSmall) => nonpos_or_nan(scale),
        Err(rd::WeibullError::ShapeTooSmall) => nonpos_or_nan(shape),
        Err(_) => false,
        Ok(_) => !nonpos_or_nan(scale) && !nonpos_or_nan(shape),
    }
}

#[inline] fn not_finite_positive<F: Float>(x: F) -> bool { !(x.is_finite() && x > F::zero()) }

/// Gumbel::new — LocationNotFinite: location is infinite or NaN; ScaleNotPositive: scale is not a finite positive number.
pub fn gumbel_new_post<F: Float, T>(location: F, scale: F, r: &Result<T, rd::GumbelError>) -> bool {
    match r {
        Err(rd::GumbelError::LocationNotFinite) => !location.is_finite(),
        Err(rd::GumbelError::ScaleNotPositive) => not_finite_positive(scale),
        Err(_) => false,
        Ok(_) => location.is_finite() && !not_finite_positive(scale),
    }
}

/// Frechet::new — as Gumbel plus ShapeNotPositive: shape is not a finite positive number.
pub fn frechet_new_post<F: Float, T>(location: F, scale: F, shape: F, r: &Result<T, rd::FrechetError>) -> bool {
    match r {
        Err(rd::FrechetError::LocationNotFinite) => !location.is_finite(),
        Err(rd::FrechetError::ScaleNotPositive) => not_finite_positive(scale),
        Err(rd::FrechetError::ShapeNotPositive) => not_finite_positive(shape),
        Err(_) => false,
        Ok(_) => location.is_finite() && !not_finite_positive(scale) && !not_finite_positive(shape),
    }
}

/// Triangular::new — RangeTooSmall: `max < min` or `min` or `max` is NaN; ModeRange: `mode < min` or `mode > max` or `mode` is NaN.
pub fn triangular_new_post<F: Float, T>(min: F, max: F, mode: F, r: &Result<T, rd::TriangularError>) -> bool {
    let range_bad = max < min || min.is_nan() || max.is_nan();
    let mode_bad = mode < min || mode > max || mode.is_nan();
    match r {
        Err(rd::TriangularError::RangeTooSmall) => range_bad,
        Err(rd::TriangularError::ModeRange) => mode_bad,
        Err(_) => false,
        Ok(_) => !range_bad && !mode_bad,
    }
}

/// Normal::new — BadVariance: the standard deviation is not finite. Accessors report the arguments.
pub fn normal_new_post<F: Float>(mean: F, std_dev: F, r: &Result<rd::Normal<F>, rd::NormalError>) -> bool
where rd::StandardNormal: rd::Distribution<F> {
    match r {
        Err(rd::NormalError::BadVariance) => !std_dev.is_finite(),
        Err(_) => false,
        Ok(d) => std_dev.is_finite() && same(d.mean(), mean) && same(d.std_dev(), std_dev),
    }
}

/// Normal::from_mean_cv — cv = abs(sigma/mu): BadVariance when the dispersion parameter is not finite; a negative
/// cv is not an absolute value, the documentation is silent on it (unspecified: either outcome accepted).
/// Ok: mean() reports the mean and std_dev() == cv * mean.
pub fn normal_from_mean_cv_post<F: Float>(mean: F, cv: F, r: &Result<rd::Normal<F>, rd::NormalError>) -> bool
where rd::StandardNormal: rd::Distribution<F> {
    let unspecified = cv < F::zero();
    match r {
        Err(rd::NormalError::BadVariance) => !cv.is_finite() || unspecified,
        Err(_) => false,
        Ok(d) => (cv.is_finite() || unspecified) && same(d.mean(), mean) && same(d.std_dev(), cv * mean),
    }
}

/// LogNormal::new — sigma must be finite (BadVariance), mu unrestricted.
pub fn lognormal_new_post<F: Float, T>(_mu: F, sigma: F, r: &Result<T, rd::NormalError>) -> bool {
    match r {
        Err(rd::NormalError::BadVariance) => !sigma.is_finite(),
        Err(_) => false,
        Ok(_) => sigma.is_finite(),
    }
}

/// LogNormal::from_mean_cv — documented: mean `mu > 0`, `cv >= 0`; special exception `mu = 0, cv = 0` allowed.
/// MeanTooSmall: "mean < 0 or NaN" (Display) / "too small (samples must be positive)" (variant doc): the
/// condition is `!(mean > 0)` except for the documented (0, 0) exception. BadVariance: "the standard deviation or
/// other dispersion parameter is not finite": cv negative or NaN, or the derived sigma = sqrt(ln(1 + cv^2)) not
/// finite. The latter happens once cv^2 overflows; the documentation gives no threshold, so cv above 1e150
/// (f32: 1e18), i.e. well below sqrt(MAX), is treated as unspecified (Ok or BadVariance accepted).
pub fn lognormal_from_mean_cv_post<F: Float, T>(mean: F, cv: F, r: &Result<T, rd::NormalError>) -> bool {
    let exception = mean == F::zero() && cv == F::zero();
    let mean_bad = !(mean > F::zero()) && !exception;
    let cv_bad = !(cv >= F::zero());
    let big = if core::mem::size_of::<F>() == 4 { F::from(1e18).unwrap() } else { F::from(1e150).unwrap() };
    let unspecified = cv > big;
    match r {
        Err(rd::NormalError::MeanTooSmall) => mean_bad,
        Err(rd::NormalError::BadVariance) => cv_bad || unspecified,
        Err(_) => false,
        Ok(_) => !mean_bad && !cv_bad,
    }
}

/// Exp::new — LambdaTooSmall: `lambda < 0` or `-0.0` or `nan`.
pub fn exp_new_post<F: Float, T>(lambda: F, r: &Result<T, rd::ExpError>) -> bool {
    let bad = lambda < F::zero() || (lambda == F::zero() && lambda.is_sign_negative()) || lambda.is_nan();
    match r { Err(rd::ExpError::LambdaTooSmall) => bad, Err(_) => false, Ok(_) => !bad }
}

/// Gamma::new — ShapeTooSmall: `shape <= 0` or nan; ScaleTooSmall: `scale <= 0` or nan; ScaleTooLarge: `1/scale == 0`.
/// The constructor docs also state that an infinite parameter yields infinite samples; the two statements
/// contradict each other for scale = inf -> unspecified there (Ok or ScaleTooLarge accepted).
pub fn gamma_new_post<F: Float, T>(shape: F, scale: F, r: &Result<T, rd::GammaError>) -> bool {
    let unspecified = scale == F::infinity();
    match r {
        Err(rd::GammaError::ShapeTooSmall) => nonpos_or_nan(shape),
        Err(rd::GammaError::ScaleTooSmall) => nonpos_or_nan(scale),
        Err(rd::GammaError::ScaleTooLarge) => unspecified,
        Err(_) => false,
        Ok(_) => !nonpos_or_nan(shape) && !nonpos_or_nan(scale),
    }
}

#[inline] fn half_nonpos<F: Float>(k: F) -> bool { !(F::from(0.5).unwrap() * k > F::zero()) }

/// ChiSquared::new — DoFTooSmall: `0.5 * k <= 0` or `nan` (evaluated in F, as documented).
pub fn chi_squared_new_post<F: Float, T>(k: F, r: &Result<T, rd::ChiSquaredError>) -> bool {
    match r { Err(rd::ChiSquaredError::DoFTooSmall) => half_nonpos(k), Err(_) => false, Ok(_) => !half_nonpos(k) }
}

/// FisherF::new — MTooSmall: `0.5 * m <= 0.0` or nan; NTooSmall: `0.5 * n <= 0.0` or nan.
pub fn fisher_f_new_post<F: Float, T>(m: F, n: F, r: &Result<T, rd::FisherFError>) -> bool {
    match r {
        Err(rd::FisherFError::MTooSmall) => half_nonpos(m),
        Err(rd::FisherFError::NTooSmall) => half_nonpos(n),
        Err(_) => false,
        Ok(_) => !half_nonpos(m) && !half_nonpos(n),
    }
}

/// Beta::new — AlphaTooSmall: `alpha <= 0` or nan; BetaTooSmall: `beta <= 0` or nan.
pub fn beta_new_post<F: Float, T>(alpha: F, beta: F, r: &Result<T, rd::BetaError>) -> bool {
    match r {
        Err(rd::BetaError::AlphaTooSmall) => nonpos_or_nan(alpha),
        Err(rd::BetaError::BetaTooSmall) => nonpos_or_nan(beta),
        Err(_) => false,
        Ok(_) => !nonpos_or_nan(alpha) && !nonpos_or_nan(beta),
    }
}

/// Pert (builder .with_mode) — RangeTooSmall: `max < min` or NaN bound (Display: "requirement min < max is not
/// met"): for max == min the two texts disagree -> unspecified; bounds whose difference is not a finite float
/// (infinite bounds, or finite bounds with max - min overflowing) and an infinite shape are not discussed by the
/// documentation -> unspecified (the constructor answers RangeTooSmall there).
/// ModeRange: `mode < min` or `mode > max` or NaN; ShapeTooSmall: `shape < 0` or NaN.
pub fn pert_with_mode_post<F: Float, T>(min: F, max: F, shape: F, mode: F, r: &Result<T, rd::PertError>) -> bool {
    let range_bad = max < min || min.is_nan() || max.is_nan();
    let unspecified = max == min || !(max - min).is_finite() || shape.is_infinite();
    let mode_bad = mode < min || mode > max || mode.is_nan();
    let shape_bad = shape < F::zero() || shape.is_nan();
    match r {
        Err(rd::PertError::RangeTooSmall) => range_bad || unspecified,
        Err(rd::PertError::ModeRange) => mode_bad,
        Err(rd::PertError::ShapeTooSmall) => shape_bad,
        Err(_) => false,
        Ok(_) => !range_bad && !mode_bad && !shape_bad,
    }
}

/// Poisson::new — ShapeTooSmall: `lambda <= 0`; NonFinite: `lambda = inf` or nan; ShapeTooLarge: lambda > MAX_LAMBDA.
/// (-inf satisfies both ShapeTooSmall and, read as "not finite", NonFinite: either accepted.)
pub fn poisson_new_post<F: Float, T>(lambda: F, max_lambda: F, r: &Result<T, rd::PoissonError>) -> bool {
    let small = lambda <= F::zero();
    let nonfinite = !lambda.is_finite();
    let large = lambda > max_lambda;
    match r {
        Err(rd::PoissonError::ShapeTooSmall) => small,
        Err(rd::PoissonError::NonFinite) => nonfinite,
        Err(rd::PoissonError::ShapeTooLarge) => large,
        Err(_) => false,
        Ok(_) => !small && !nonfinite && !large,
    }
}

/// SkewNormal::new — ScaleTooSmall: scale not finite or <= 0; BadShape: shape not finite. Accessors report the arguments.
pub fn skew_normal_new_post<F: Float>(location: F, scale: F, shape: F, r: &Result<rd::SkewNormal<F>, rd::SkewNormalError>) -> bool
where rd::StandardNormal: rd::Distribution<F> {
    let scale_bad = !scale.is_finite() || !(scale > F::zero());
    match r {
        Err(rd::SkewNormalError::ScaleTooSmall) => scale_bad,
        Err(rd::SkewNormalError::BadShape) => !shape.is_finite(),
        Err(_) => false,
        Ok(d) => !scale_bad && shape.is_finite() && same(d.location(), location) && same(d.scale(), scale) && same(d.shape(), shape),
    }
}

/// InverseGaussian::new — MeanNegativeOrNull: `mean <= 0` or nan; ShapeNegativeOrNull: `shape <= 0` or nan.
pub fn inverse_gaussian_new_post<F: Float, T>(mean: F, shape: F, r: &Result<T, rd::InverseGaussianError>) -> bool {
    match r {
        Err(rd::InverseGaussianError::MeanNegativeOrNull) => nonpos_or_nan(mean),
        Err(rd::InverseGaussianError::ShapeNegativeOrNull) => nonpos_or_nan(shape),
        Err(_) => false,
        Ok(_) => !nonpos_or_nan(mean) && !nonpos_or_nan(shape),
    }
}

/// NormalInverseGaussian::new — AlphaNegativeOrNull: `alpha <= 0` or nan; AlphaInfinite: alpha is inf;
/// AbsoluteBetaNotLessThanAlpha: `|beta| >= alpha` or nan.
pub fn nig_new_post<F: Float, T>(alpha: F, beta: F, r: &Result<T, rd::NormalInverseGaussianError>) -> bool {
    let a_bad = nonpos_or_nan(alpha);
    let a_inf = alpha == F::infinity();
    let b_bad = !(beta.abs() < alpha);
    match r {
        Err(rd::NormalInverseGaussianError::AlphaNegativeOrNull) => a_bad,
        Err(rd::NormalInverseGaussianError::AlphaInfinite) => a_inf,
        Err(rd::NormalInverseGaussianError::AbsoluteBetaNotLessThanAlpha) => b_bad,
        Err(_) => false,
        Ok(_) => !a_bad && !a_inf && !b_bad,
    }
}

/// Zeta::new — STooSmall: `s <= 1` or nan.
pub fn zeta_new_post<F: Float, T>(s: F, r: &Result<T, rd::ZetaError>) -> bool {
    let bad = !(s > F::one());
    match r { Err(rd::ZetaError::STooSmall) => bad, Err(_) => false, Ok(_) => !bad }
}

/// Zipf::new — STooSmall: `s < 0` or nan; NTooSmall: `n < 1` or nan; IllDefined: `n = inf` and `s <= 1`.
pub fn zipf_new_post<F: Float, T>(n: F, s: F, r: &Result<T, rd::ZipfError>) -> bool {
    let s_bad = !(s >= F::zero());
    let n_bad = !(n >= F::one());
    let ill = n == F::infinity() && s <= F::one();
    match r {
        Err(rd::ZipfError::STooSmall) => s_bad,
        Err(rd::ZipfError::NTooSmall) => n_bad,
        Err(rd::ZipfError::IllDefined) => ill,
        Err(_) => false,
        Ok(_) => !s_bad && !n_bad && !ill,
    }
}

/// Geometric::new — InvalidProbability: `p < 0 || p > 1` or nan.
pub fn geometric_new_post<T>(p: f64, r: &Result<T, rd::GeoError>) -> bool {
    let bad = !(p >= 0.0 && p <= 1.0);
    match r { Err(rd::GeoError::InvalidProbability) => bad, Err(_) => false, Ok(_) => !bad }
}

/// Binomial::new — ProbabilityTooSmall: `p < 0` or nan; ProbabilityTooLarge: `p > 1`.
pub fn binomial_new_post<T>(_n: u64, p: f64, r: &Result<T, rd::BinomialError>) -> bool {
    let small = !(p >= 0.0);
    let large = p > 1.0;
    match r {
        Err(rd::BinomialError::ProbabilityTooSmall) => small,
        Err(rd::BinomialError::ProbabilityTooLarge) => large,
        Err(_) => false,
        Ok(_) => !small && !large,
    }
}

/// Hypergeometric::new — PopulationTooLarge: the population is too large for the f64 conversions (no threshold
/// documented -> unspecified); ProbabilityTooLarge: `K > N`; SampleSizeTooLarge: `n > N`.
pub fn hypergeometric_new_post<T>(total: u64, feature: u64, sample: u64, r: &Result<T, rd::HyperGeoError>) -> bool {
    match r {
        Err(rd::HyperGeoError::PopulationTooLarge) => true,
        Err(rd::HyperGeoError::ProbabilityTooLarge) => feature > total,
        Err(rd::HyperGeoError::SampleSizeTooLarge) => sample > total,
        Err(_) => false,
        Ok(_) => feature <= total && sample <= total,
    }
}

// ------------------------------------------------------------------------------------------------ C03 (support)
pub fn finite<F: Float>(x: F) -> bool { x.is_finite() }
/// Cauchy: any finite real.
pub fn cauchy_support<F: Float>(x: F) -> bool { x.is_finite() }
/// Pareto: x >= scale, finite (inside the envelope).
pub fn pareto_support<F: Float>(scale: F, x: F) -> bool { x.is_finite() && x >= scale }
/// Weibull: x >= 0, finite.
pub fn weibull_support<F: Float>(x: F) -> bool { x.is_finite() && x >= F::zero() }
/// Gumbel: any finite real.
pub fn gumbel_support<F: Float>(x: F) -> bool { x.is_finite() }
/// Frechet: x >= location ("positive-support families >= their lower bound"), finite.
pub fn frechet_support<F: Float>(location: F, x: F) -> bool { x.is_finite() && x >= location }
/// Triangular: inside [min, max] up to 4 ulp of the larger bound.
pub fn triangular_support<F: Float>(min: F, max: F, x: F) -> bool {
    let big = if min.abs() > max.abs() { min.abs() } else { max.abs() };
    let slack = F::from(4.0).unwrap() * F::epsilon() * big;
    x >= min - slack && x <= max + slack
}

//! C03 units: support / no-panic postconditions of `sample` for EVERY RNG word (a strict superset of the property's
//! "one adversarial word" quantifier), parameters symbolic inside the envelope E (DESIGN.md section 4).
//! Draw order (documented for counterexample decoding): parameters in constructor order, then the RNG words.
use super::lc;
use super::rd;
use super::rngs::WordsRng;
use super::spec;
use rd::Distribution;

macro_rules! env {
    // envelope E: location-like |v| <= LOC, scale-like in [SMIN, SMAX], tail index in [TMIN, 1e3]
    (f64) => { (1e100f64, 1e-100f64, 1e100f64, 0.1f64) };
    (f32) => { (1e15f32, 1e-15f32, 1e15f32, 0.5f32) };
}

macro_rules! one_draw_units {
    ($F:tt, $cauchy:ident, $pareto:ident, $weibull:ident, $gumbel:ident, $frechet:ident, $triangular:ident, $x_is_one:expr) => {
        /// Cauchy: one word, never NaN (finiteness would need a magnitude bound on tan, which the assumed contract does not give)
        #[kani::proof]
        #[kani::stub(libm::tan, lc::tan)]
        #[kani::stub(libm::tanf, lc::tanf)]
        fn $cauchy() {
            let (loc_max, smin, smax, _t) = env!($F);
            let median: $F = kani::any(); let scale: $F = kani::any();
            kani::assume(median.abs() <= loc_max && scale >= smin && scale <= smax);
            let d = rd::Cauchy::<$F>::new(median, scale).unwrap();
            let mut rng = WordsRng::<2>::any();
            let x: $F = d.sample(&mut rng);
            kani::assert(!x.is_nan(), "Cauchy sample is NaN");
            kani::cover!(rng.i == 1, "sample returns inside the envelope");
            kani::assert(rng.i == 1, "Cauchy consumes exactly one word");
        }

        /// Pareto: x >= scale, never NaN
        #[kani::proof]
        #[kani::stub(libm::pow, lc::pow)]
        #[kani::stub(libm::powf, lc::powf)]
        fn $pareto() {
            let (_l, smin, smax, tmin) = env!($F);
            let scale: $F = kani::any(); let shape: $F = kani::any();
            kani::assume(scale >= smin && scale <= smax && shape >= tmin && shape <= 1e3);
            let d = rd::Pareto::<$F>::new(scale, shape).unwrap();
            let mut rng = WordsRng::<2>::any();
            let x: $F = d.sample(&mut rng);
            kani::assert(!x.is_nan(), "Pareto sample is NaN");
            kani::assert(x >= scale, "Pareto sample below scale");
            kani::cover!(rng.i == 1, "sample returns inside the envelope");
            kani::assert(rng.i == 1, "Pareto consumes exactly one word");
        }

        /// Weibull: x >= 0, never NaN
        #[kani::proof]
        #[kani::stub(libm::pow, lc::pow)]
        #[kani::stub(libm::powf, lc::powf)]
        #[kani::stub(libm::log, lc::log)]
        #[kani::stub(libm::logf, lc::logf)]
        fn $weibull() {
            let (_l, smin, smax, tmin) = env!($F);
            let scale: $F = kani::any(); let shape: $F = kani::any();
            kani::assume(scale >= smin && scale <= smax && shape >= tmin && shape <= 1e3);
            let d = rd::Weibull::<$F>::new(scale, shape).unwrap();
            let mut rng = WordsRng::<2>::any();
            let x: $F = d.sample(&mut rng);
            kani::assert(!x.is_nan(), "Weibull sample is NaN");
            kani::assert(x >= 0.0, "Weibull sample negative");
            kani::cover!(rng.i == 1, "sample returns inside the envelope");
            kani::assert(rng.i == 1, "Weibull consumes exactly one word");
        }

        /// Gumbel: finite. The word making the uniform draw exactly 1 is a KNOWN FINDING (+inf) pinned by its own harness
        /// and excluded here, so that any OTHER word producing a non-finite value is still reported.
        #[kani::proof]
        #[kani::stub(libm::log, lc::log)]
        #[kani::stub(libm::logf, lc::logf)]
        fn $gumbel() {
            let (loc_max, smin, smax, _t) = env!($F);
            let location: $F = kani::any(); let scale: $F = kani::any();
            kani::assume(location.abs() <= loc_max && scale >= smin && scale <= smax);
            let d = rd::Gumbel::<$F>::new(location, scale).unwrap();
            let mut rng = WordsRng::<2>::any();
            let is_one: fn(u64) -> bool = $x_is_one;
            kani::assume(!is_one(rng.w[0]));
            let x: $F = d.sample(&mut rng);
            kani::assert(x.is_finite(), "Gumbel sample not finite");
            kani::cover!(rng.i == 1, "sample returns inside the envelope");
            kani::assert(rng.i == 1, "Gumbel consumes exactly one word");
        }

        /// Frechet: x >= location, never NaN; known finding (uniform draw exactly 1 -> -inf / +inf) excluded as for Gumbel.
        #[kani::proof]
        #[kani::stub(libm::pow, lc::pow)]
        #[kani::stub(libm::powf, lc::powf)]
        #[kani::stub(libm::log, lc::log)]
        #[kani::stub(libm::logf, lc::logf)]
        fn $frechet() {
            let (loc_max, smin, smax, tmin) = env!($F);
            let location: $F = kani::any(); let scale: $F = kani::any(); let shape: $F = kani::any();
            kani::assume(location.abs() <= loc_max && scale >= smin && scale <= smax && shape >= tmin && shape <= 1e3);
            let d = rd::Frechet::<$F>::new(location, scale, shape).unwrap();
            let mut rng = WordsRng::<2>::any();
            let is_one: fn(u64) -> bool = $x_is_one;
            kani::assume(!is_one(rng.w[0]));
            let x: $F = d.sample(&mut rng);
            kani::assert(!x.is_nan(), "Frechet sample is NaN");
            kani::assert(x >= location, "Frechet sample below location");
            kani::cover!(rng.i == 1, "sample returns inside the envelope");
            kani::assert(rng.i == 1, "Frechet consumes exactly one word");
        }

        /// Triangular: never NaN (both square-root arguments are non-negative), one word
        #[kani::proof]
        #[kani::stub(libm::sqrt, lc::sqrt_c)]
        #[kani::stub(libm::sqrtf, lc::sqrtf_c)]
        fn $triangular() {
            let (loc_max, _smin, _smax, _t) = env!($F);
            let min: $F = kani::any(); let max: $F = kani::any(); let mode: $F = kani::any();
            kani::assume(min.abs() <= loc_max && max.abs() <= loc_max && min <= mode && mode <= max);
            let d = rd::Triangular::<$F>::new(min, max, mode).unwrap();
            let mut rng = WordsRng::<2>::any();
            let x: $F = d.sample(&mut rng);
            kani::assert(!x.is_nan(), "Triangular sample is NaN");
            kani::cover!(rng.i == 1, "sample returns inside the envelope");
            kani::assert(rng.i == 1, "Triangular consumes exactly one word");
        }
    };
}
one_draw_units!(f64, c03_cauchy_f64, c03_pareto_f64, c03_weibull_f64, c03_gumbel_f64, c03_frechet_f64, c03_triangular_f64,
                |w: u64| (w >> 11) == (1u64 << 53) - 1);
one_draw_units!(f32, c03_cauchy_f32, c03_pareto_f32, c03_weibull_f32, c03_gumbel_f32, c03_frechet_f32, c03_triangular_f32,
                |w: u64| ((w as u32) >> 8) == (1u32 << 24) - 1);

// ---------------------------------------------------------------- pinned known findings (expected to FAIL)
/// KNOWN FINDING: Gumbel returns +inf when the uniform draw is exactly 1 (all-ones word): -ln(1) = -0.0, ln(-0.0) = -inf
#[kani::proof]
#[kani::stub(libm::log, lc::log)]
fn kf_gumbel_inf_f64() {
    let d = rd::Gumbel::<f64>::new(0.0, 1.0).unwrap();
    let mut rng = WordsRng::<2>::of([u64::MAX, 0]);
    let x: f64 = d.sample(&mut rng);
    kani::assert(x.is_finite(), "Gumbel sample not finite");
}

/// KNOWN FINDING: Frechet(0, 1, 1) returns -inf (below its location) at the all-ones word: pow(-0.0, -1) = -inf
#[kani::proof]
#[kani::stub(libm::log, lc::log)]
#[kani::stub(libm::pow, lc::pow)]
fn kf_frechet_neg_inf_f64() {
    let d = rd::Frechet::<f64>::new(0.0, 1.0, 1.0).unwrap();
    let mut rng = WordsRng::<2>::of([u64::MAX, 0]);
    let x: f64 = d.sample(&mut rng);
    kani::assert(x >= 0.0, "Frechet sample below location");
}

// ---------------------------------------------------------------- rejection samplers: one arbitrary iteration
/// Zipf (f64): one iteration of the rejection loop, every (n, s) in E, every pair of words: a returned rank is never
/// below 1 and no debug assertion fires.  NaN-freedom is NOT claimed: under the assumed pow contract (no magnitude
/// bound) t can be +inf and 0 * t is NaN; excluding that needs the accuracy of powf.
/// The upper bound x <= n is NOT claimed: it depends on the accuracy of powf at the top of inv_cdf.
#[kani::proof]
#[kani::unwind(1)]
#[kani::stub(libm::pow, lc::pow)]
#[kani::stub(libm::log, lc::log)]
#[kani::stub(libm::exp, lc::exp)]
#[kani::stub(libm::floor, lc::floor)]
fn c03_zipf_step_f64() {
    let n: f64 = kani::any(); let s: f64 = kani::any();
    kani::assume(n >= 1.0 && n <= 1e15 && s >= 0.0 && s <= 1e3);
    let d = rd::Zipf::<f64>::new(n, s).unwrap();
    let mut rng = WordsRng::<2>::any();
    let x: f64 = d.sample(&mut rng);
    kani::cover!(rng.i == 2, "an iteration accepts");
    kani::assert(!(x < 1.0), "Zipf rank below 1");
}

/// Zeta (f64): one iteration, every s in E, every pair of words: the value is >= 1, never NaN (infinite only via the
/// documented overflow return), and the internal debug_assert!(x >= 1) never fires.
#[kani::proof]
#[kani::unwind(1)]
#[kani::stub(libm::pow, lc::pow)]
#[kani::stub(libm::floor, lc::floor)]
fn c03_zeta_step_f64() {
    let s: f64 = kani::any();
    kani::assume(s > 1.0 && s <= 1e3);
    let d = rd::Zeta::<f64>::new(s).unwrap();
    let mut rng = WordsRng::<2>::any();
    let x: f64 = d.sample(&mut rng);
    kani::cover!(rng.i >= 1, "an iteration returns");
    kani::assert(x >= 1.0, "Zeta value below 1 or NaN");
}

//! (filled in below)

//! C03 units: support / no-panic postconditions of `sample` for EVERY RNG word (a strict superset of the property's
//! "one adversarial word" quantifier), parameters symbolic inside the envelope E (DESIGN.md section 4).
//! Draw order (documented for counterexample decoding): parameters in constructor order, then the RNG words.
use super::lc;
use super::rd;
use super::rngs::WordsRng;
use super::spec;
use rd::Distribution;

macro_rules! env {
    // envelope E: location-like |v| <= LOC, scale-like in [SMIN, SMAX], tail index in [TMIN, 1e3]
    (f64) => { (1e100f64, 1e-100f64, 1e100f64, 0.1f64) };
    (f32) => { (1e15f32, 1e-15f32, 1e15f32, 0.5f32) };
}

macro_rules! one_draw_units {
    ($F:tt, $cauchy:ident, $pareto:ident, $weibull:ident, $gumbel:ident, $frechet:ident, $triangular:ident, $x_is_one:expr) => {
        /// Cauchy: one word, never NaN (finiteness would need a magnitude bound on tan, which the assumed contract does not give)
        #[kani::proof]
        #[kani::stub(libm::tan, lc::tan)]
        #[kani::stub(libm::tanf, lc::tanf)]
        fn $cauchy() {
            let (loc_max, smin, smax, _t) = env!($F);
            let median: $F = kani::any(); let scale: $F = kani::any();
            kani::assume(median.abs() <= loc_max && scale >= smin && scale <= smax);
            let d = rd::Cauchy::<$F>::new(median, scale).unwrap();
            let mut rng = WordsRng::<2>::any();
            let x: $F = d.sample(&mut rng);
            kani::assert(!x.is_nan(), "Cauchy sample is NaN");
            kani::cover!(rng.i == 1, "sample returns inside the envelope");
            kani::assert(rng.i == 1, "Cauchy consumes exactly one word");
        }

        /// Pareto: x >= scale, never NaN
        #[kani::proof]
        #[kani::stub(libm::pow, lc::pow)]
        #[kani::stub(libm::powf, lc::powf)]
        fn $pareto() {
            let (_l, smin, smax, tmin) = env!($F);
            let scale: $F = kani::any(); let shape: $F = kani::any();
            kani::assume(scale >= smin && scale <= smax && shape >= tmin && shape <= 1e3);
            let d = rd::Pareto::<$F>::new(scale, shape).unwrap();
            let mut rng = WordsRng::<2>::any();
            let x: $F = d.sample(&mut rng);
            kani::assert(!x.is_nan(), "Pareto sample is NaN");
            kani::assert(x >= scale, "Pareto sample below scale");
            kani::cover!(rng.i == 1, "sample returns inside the envelope");
            kani::assert(rng.i == 1, "Pareto consumes exactly one word");
        }

        /// Weibull: x >= 0, never NaN
        #[kani::proof]
        #[kani::stub(libm::pow, lc::pow)]
        #[kani::stub(libm::powf, lc::powf)]
        #[kani::stub(libm::log, lc::log)]
        #[kani::stub(libm::logf, lc::logf)]
        fn $weibull() {
            let (_l, smin, smax, tmin) = env!($F);
            let scale: $F = kani::any(); let shape: $F = kani::any();
            kani::assume(scale >= smin && scale <= smax && shape >= tmin && shape <= 1e3);
            let d = rd::Weibull::<$F>::new(scale, shape).unwrap();
            let mut rng = WordsRng::<2>::any();
            let x: $F = d.sample(&mut rng);
            kani::assert(!x.is_nan(), "Weibull sample is NaN");
            kani::assert(x >= 0.0, "Weibull sample negative");
            kani::cover!(rng.i == 1, "sample returns inside the envelope");
            kani::assert(rng.i == 1, "Weibull consumes exactly one word");
        }

        /// Gumbel: finite. The word making the uniform draw exactly 1 is a KNOWN FINDING (+inf) pinned by its own harness
        /// and excluded here, so that any OTHER word producing a non-finite value is still reported.
        #[kani::proof]
        #[kani::stub(libm::log, lc::log)]
        #[kani::stub(libm::logf, lc::logf)]
        fn $gumbel() {
            let (loc_max, smin, smax, _t) = env!($F);
            let location: $F = kani::any(); let scale: $F = kani::any();
            kani::assume(location.abs() <= loc_max && scale >= smin && scale <= smax);
            let d = rd::Gumbel::<$F>::new(location, scale).unwrap();
            let mut rng = WordsRng::<2>::any();
            let is_one: fn(u64) -> bool = $x_is_one;
            kani::assume(!is_one(rng.w[0]));
            let x: $F = d.sample(&mut rng);
            kani::assert(x.is_finite(), "Gumbel sample not finite");
            kani::cover!(rng.i == 1, "sample returns inside the envelope");
            kani::assert(rng.i == 1, "Gumbel consumes exactly one word");
        }

        /// Frechet: x >= location, never NaN; known finding (uniform draw exactly 1 -> -inf / +inf) excluded as for Gumbel.
        #[kani::proof]
        #[kani::stub(libm::pow, lc::pow)]
        #[kani::stub(libm::powf, lc::powf)]
        #[kani::stub(libm::log, lc::log)]
        #[kani::stub(libm::logf, lc::logf)]
        fn $frechet() {
            let (loc_max, smin, smax, tmin) = env!($F);
            let location: $F = kani::any(); let scale: $F = kani::any(); let shape: $F = kani::any();
            kani::assume(location.abs() <= loc_max && scale >= smin && scale <= smax && shape >= tmin && shape <= 1e3);
            let d = rd::Frechet::<$F>::new(location, scale, shape).unwrap();
            let mut rng = WordsRng::<2>::any();
            let is_one: fn(u64) -> bool = $x_is_one;
            kani::assume(!is_one(rng.w[0]));
            let x: $F = d.sample(&mut rng);
            kani::assert(!x.is_nan(), "Frechet sample is NaN");
            kani::assert(x >= location, "Frechet sample below location");
            kani::cover!(rng.i == 1, "sample returns inside the envelope");
            kani::assert(rng.i == 1, "Frechet consumes exactly one word");
        }

        /// Triangular: never NaN (both square-root arguments are non-negative), one word
        #[kani::proof]
        #[kani::stub(libm::sqrt, lc::sqrt_c)]
        #[kani::stub(libm::sqrtf, lc::sqrtf_c)]
        fn $triangular() {
            let (loc_max, _smin, _smax, _t) = env!($F);
            let min: $F = kani::any(); let max: $F = kani::any(); let mode: $F = kani::any();
            kani::assume(min.abs() <= loc_max && max.abs() <= loc_max && min <= mode && mode <= max);
            let d = rd::Triangular::<$F>::new(min, max, mode).unwrap();
            let mut rng = WordsRng::<2>::any();
            let x: $F = d.sample(&mut rng);
            kani::assert(!x.is_nan(), "Triangular sample is NaN");
            kani::cover!(rng.i == 1, "sample returns inside the envelope");
            kani::assert(rng.i == 1, "Triangular consumes exactly one word");
        }
    };
}
one_draw_units!(f64, c03_cauchy_f64, c03_pareto_f64, c03_weibull_f64, c03_gumbel_f64, c03_frechet_f64, c03_triangular_f64,
                |w: u64| (w >> 11) == (1u64 << 53) - 1);
one_draw_units!(f32, c03_cauchy_f32, c03_pareto_f32, c03_weibull_f32, c03_gumbel_f32, c03_frechet_f32, c03_triangular_f32,
                |w: u64| ((w as u32) >> 8) == (1u32 << 24) - 1);

// ---------------------------------------------------------------- pinned known findings (expected to FAIL)
/// KNOWN FINDING: Gumbel returns +inf when the uniform draw is exactly 1 (all-ones word): -ln(1) = -0.0, ln(-0.0) = -inf
#[kani::proof]
#[kani::stub(libm::log, lc::log)]
fn kf_gumbel_inf_f64() {
    let d = rd::Gumbel::<f64>::new(0.0, 1.0).unwrap();
    let mut rng = WordsRng::<2>::of([u64::MAX, 0]);
    let x: f64 = d.sample(&mut rng);
    kani::assert(x.is_finite(), "Gumbel sample not finite");
}

/// KNOWN FINDING: Frechet(0, 1, 1) returns -inf (below its location) at the all-ones word: pow(-0.0, -1) = -inf
#[kani::proof]
#[kani::stub(libm::log, lc::log)]
#[kani::stub(libm::pow, lc::pow)]
fn kf_frechet_neg_inf_f64() {
    let d = rd::Frechet::<f64>::new(0.0, 1.0, 1.0).unwrap();
    let mut rng = WordsRng::<2>::of([u64::MAX, 0]);
    let x: f64 = d.sample(&mut rng);
    kani::assert(x >= 0.0, "Frechet sample below location");
}

// ---------------------------------------------------------------- rejection samplers: one arbitrary iteration
/// Zipf (f64): one iteration of the rejection loop, every (n, s) in E, every pair of words: a returned rank is never
/// below 1 and no debug assertion fires.  NaN-freedom is NOT claimed: under the assumed pow contract (no magnitude
/// bound) t can be +inf and 0 * t is NaN; excluding that needs the accuracy of powf.
/// The upper bound x <= n is NOT claimed: it depends on the accuracy of powf at the top of inv_cdf.
#[kani::proof]
#[kani::unwind(1)]
#[kani::stub(libm::pow, lc::pow)]
#[kani::stub(libm::log, lc::log)]
#[kani::stub(libm::exp, lc::exp)]
#[kani::stub(libm::floor, lc::floor)]
fn c03_zipf_step_f64() {
    let n: f64 = kani::any(); let s: f64 = kani::any();
    kani::assume(n >= 1.0 && n <= 1e15 && s >= 0.0 && s <= 1e3);
    let d = rd::Zipf::<f64>::new(n, s).unwrap();
    let mut rng = WordsRng::<2>::any();
    let x: f64 = d.sample(&mut rng);
    kani::cover!(rng.i == 2, "an iteration accepts");
    kani::assert(!(x < 1.0), "Zipf rank below 1");
}

/// Zeta (f64): one iteration, every s in E, every pair of words: the value is >= 1, never NaN (infinite only via the
/// documented overflow return, and never for s >= 2), and the internal debug_assert!(x >= 1) never fires.
#[kani::proof]
#[kani::unwind(1)]
#[kani::stub(libm::pow, lc::pow)]
#[kani::stub(libm::floor, lc::floor)]
fn c03_zeta_step_f64() {
    let s: f64 = kani::any();
    kani::assume(s > 1.0 && s <= 1e3);
    let d = rd::Zeta::<f64>::new(s).unwrap();
    let mut rng = WordsRng::<2>::any();
    let x: f64 = d.sample(&mut rng);
    kani::cover!(rng.i >= 1, "an iteration returns");
    kani::assert(x >= 1.0, "Zeta value below 1 or NaN");
    // s >= 2: the exponent -1/(s-1) lies in [-1, 0) and the OpenClosed01 base in [2^-53, 1], so the proposal cannot
    // overflow - an infinite value here is the pole pow(0, negative), not the documented "s close to 1" overflow
    kani::cover!(s >= 2.0 && rng.i >= 1, "s >= 2 returns");
    if s >= 2.0 { kani::assert(x.is_finite(), "Zeta(s >= 2) value infinite"); }
}

// ---------------------------------------------------------------- samplers built on a ziggurat draw (one ziggurat iteration)
/// Exp(lambda): lambda = 0 gives +inf (documented), lambda > 0 in E gives a value that is > 0 ... never NaN, never negative.
/// One iteration of the ziggurat loop (bounded); the known Exp1 tail witness (uniform exactly 0) is excluded.
#[kani::proof]
#[kani::unwind(1)]
#[kani::stub(f64::exp, lc::exp)]
#[kani::stub(f64::ln, lc::log)]
fn c03_exp_sample_f64() {
    let lambda: f64 = kani::any();
    kani::assume(lambda == 0.0 && lambda.is_sign_positive() || (lambda >= 1e-100 && lambda <= 1e100));
    let d = rd::Exp::<f64>::new(lambda).unwrap();
    let mut rng = WordsRng::<4>::any();
    kani::assume(!((rng.w[0] & 0xff) == 0 && (rng.w[1] >> 11) == 0));
    let x: f64 = d.sample(&mut rng);
    kani::cover!(lambda == 0.0, "rate 0 reachable");
    kani::cover!(lambda > 0.0, "positive rate reachable");
    kani::assert(!x.is_nan(), "Exp sample is NaN");
    kani::assert(x >= 0.0, "Exp sample negative");
    if lambda == 0.0 { kani::assert(x == f64::INFINITY, "Exp(0) is +inf as documented"); } else { kani::assert(x.is_finite(), "Exp(lambda > 0) sample not finite"); }
}

/// Normal(mean, std_dev) in E (std_dev of either sign): one ziggurat iteration / one tail iteration: never NaN, finite.
#[kani::proof]
#[kani::unwind(1)]
#[kani::stub(f64::exp, lc::exp)]
#[kani::stub(f64::ln, lc::log)]
fn c03_normal_sample_f64() {
    let mean: f64 = kani::any(); let sd: f64 = kani::any();
    kani::assume(mean.abs() <= 1e100 && sd.abs() <= 1e100);
    let d = rd::Normal::<f64>::new(mean, sd).unwrap();
    let mut rng = WordsRng::<4>::any();
    let x: f64 = d.sample(&mut rng);
    kani::cover!(rng.i >= 1, "a ziggurat iteration returns");
    kani::assert(x.is_finite(), "Normal sample not finite");
}

// ---------------------------------------------------------------- composite samplers: one iteration of every loop on the path
// (each rejection loop and the ziggurat loop inside it run their body once; bounded units).  Only what follows from
// signs, special values and the libm contracts is asserted.
macro_rules! composite {
    ($name:ident, |$rng:ident| $body:block) => {
        #[kani::proof]
        #[kani::unwind(1)]
        #[kani::stub(f64::exp, lc::exp)]
        #[kani::stub(f64::ln, lc::log)]
        #[kani::stub(libm::exp, lc::exp)]
        #[kani::stub(libm::log, lc::log)]
        #[kani::stub(libm::pow, lc::pow)]
        #[kani::stub(libm::sqrt, lc::sqrt_c)]
        #[kani::stub(libm::floor, lc::floor)]
        fn $name() { let mut $rng = WordsRng::<8>::any(); $body }
    };
}

composite!(c03_lognormal_sample_f64, |rng| {
    let (mu, sigma): (f64, f64) = (kani::any(), kani::any());
    kani::assume(mu.abs() <= 1e100 && sigma.abs() <= 1e100);
    let x: f64 = rd::LogNormal::<f64>::new(mu, sigma).unwrap().sample(&mut rng);
    kani::cover!(rng.i >= 1, "returns");
    kani::assert(!x.is_nan() && x >= 0.0, "LogNormal sample negative or NaN");
});

composite!(c03_skew_normal_sample_f64, |rng| {
    let (loc, scale, shape): (f64, f64, f64) = (kani::any(), kani::any(), kani::any());
    kani::assume(loc.abs() <= 1e100 && scale >= 1e-100 && scale <= 1e100 && shape.abs() <= 1e4);
    let x: f64 = rd::SkewNormal::<f64>::new(loc, scale, shape).unwrap().sample(&mut rng);
    kani::cover!(rng.i >= 2, "general-shape branch returns");
    kani::assert(!x.is_nan(), "SkewNormal sample is NaN");
});

composite!(c03_gamma_sample_f64, |rng| {
    let (shape, scale): (f64, f64) = (kani::any(), kani::any());
    kani::assume(shape >= 1e-3 && shape <= 1e4 && scale >= 1e-100 && scale <= 1e100);
    let x: f64 = rd::Gamma::<f64>::new(shape, scale).unwrap().sample(&mut rng);
    kani::cover!(shape < 1.0, "small-shape branch returns");
    kani::cover!(shape > 1.0, "large-shape branch returns");
    kani::assert(!x.is_nan() && x >= 0.0, "Gamma sample negative or NaN");
});

composite!(c03_chi_squared_sample_f64, |rng| {
    let k: f64 = kani::any();
    kani::assume(k >= 1e-3 && k <= 1e4);
    let x: f64 = rd::ChiSquared::<f64>::new(k).unwrap().sample(&mut rng);
    kani::cover!(k == 1.0, "k = 1 branch returns");
    kani::assert(!x.is_nan() && x >= 0.0, "ChiSquared sample negative or NaN");
});

composite!(c03_beta_sample_f64, |rng| {
    let (a, b): (f64, f64) = (kani::any(), kani::any());
    kani::assume(a >= 1e-3 && a <= 1e4 && b >= 1e-3 && b <= 1e4);
    let x: f64 = rd::Beta::<f64>::new(a, b).unwrap().sample(&mut rng);
    kani::cover!(a > 1.0 && b > 1.0, "BB branch returns");
    kani::cover!(a < 1.0, "BC branch returns");
    kani::assert(!x.is_nan() && x >= 0.0 && x <= 1.0, "Beta sample outside [0, 1] or NaN");
});



composite!(c03_poisson_sample_f64, |rng| {
    let lambda: f64 = kani::any();
    kani::assume(lambda >= 1e-3 && lambda <= 1e15);
    let x: f64 = rd::Poisson::<f64>::new(lambda).unwrap().sample(&mut rng);
    kani::cover!(lambda < 12.0, "Knuth branch returns");     // the rejection method (lambda >= 12) has inner loops that one iteration does not leave
    kani::assert(!x.is_nan() && x >= 0.0, "Poisson sample negative or NaN");
});





composite!(c03_pert_sample_f64, |rng| {
    let (min, max, mode): (f64, f64, f64) = (kani::any(), kani::any(), kani::any());
    kani::assume(min.abs() <= 1e100 && max.abs() <= 1e100 && max > min && mode >= min && mode <= max && max - min >= 1e-100);
    let x: f64 = rd::Pert::<f64>::new(min, max).with_mode(mode).unwrap().sample(&mut rng);
    kani::cover!(rng.i >= 2, "returns");
    kani::assert(!x.is_nan() && x >= min, "Pert sample below min or NaN");
});



//! Units about the weighted-index types that the Verus proofs rely on or cannot reach:
//!  * the ASSUMED contract of rand's `Weight::checked_add_assign` (used by the tree proof) is discharged here against
//!    rand's real implementation, for every integer weight type and every pair of values (loop-free: complete);
//!  * float weights (outside Verus' reach): bounded no-panic units for `WeightedTreeIndex<f32>` and the pinned known finding.
use super::rd;
use super::rngs::AnyRng;
use rand::distr::weighted::Weight;
use rd::weighted::WeightedTreeIndex;

macro_rules! checked_add_assign_contract {
    ($name:ident, $T:ty) => {
        #[kani::proof]
        fn $name() {
            let a0: $T = kani::any();
            let b: $T = kani::any();
            let mut a = a0;
            let r = a.checked_add_assign(&b);
            let exact = (a0 as i128).checked_add(b as i128);      // mathematical sum (fits i128 for every type but the 128-bit ones)
            let fits = a0.checked_add(b).is_some();
            kani::cover!(r.is_ok(), "no overflow reachable");
            kani::cover!(r.is_err(), "overflow reachable");
            kani::assert(r.is_ok() == fits, "Ok iff the mathematical sum fits the type");
            if r.is_ok() { kani::assert(Some(a) == a0.checked_add(b), "on Ok the value is the exact sum"); }
            else { kani::assert(a == a0, "on Err the value is unchanged"); }
            let _ = exact;
        }
    };
}
checked_add_assign_contract!(weight_checked_add_assign_u8, u8);
checked_add_assign_contract!(weight_checked_add_assign_u16, u16);
checked_add_assign_contract!(weight_checked_add_assign_u32, u32);
checked_add_assign_contract!(weight_checked_add_assign_u64, u64);
checked_add_assign_contract!(weight_checked_add_assign_u128, u128);
checked_add_assign_contract!(weight_checked_add_assign_usize, usize);
checked_add_assign_contract!(weight_checked_add_assign_i8, i8);
checked_add_assign_contract!(weight_checked_add_assign_i16, i16);
checked_add_assign_contract!(weight_checked_add_assign_i32, i32);
checked_add_assign_contract!(weight_checked_add_assign_i64, i64);
checked_add_assign_contract!(weight_checked_add_assign_i128, i128);
checked_add_assign_contract!(weight_checked_add_assign_isize, isize);

/// KNOWN FINDING (float weights, ordinary magnitudes): the largest draw lands within rounding error of a subtree
/// boundary; `target - left_subtotal` is then not below the rounded residual weight and the internal assertion
/// `target_weight < self.get(index)` fires although is_valid() is true.  Found by the symbolic 2-node unit
/// (all weights, all words) and pinned here on its counterexample; the symbolic unit cannot be kept as an obligation
/// because no simple witness class separates these roundings.
#[kani::proof]
#[kani::unwind(4)]
fn kf_tree_f32_rounding_panics() {
    let t = WeightedTreeIndex::<f32>::new([f32::from_bits(0x5fb09800), f32::from_bits(0x5af9fe00)]).unwrap();   // 2.5449841e19, 3.5183273e16
    assert!(t.is_valid());
    let mut rng = super::rngs::WordsRng::<2>::of([0xffff_ffffu64, 0xffff_ffffu64]);
    let r = t.try_sample(&mut rng);
    kani::assert(r.is_ok(), "is_valid() implies try_sample succeeds");
}

/// KNOWN FINDING: with a subnormal total, rand's float `random_range(0..total)` can return `total` itself and the
/// internal assertion `target_weight < self.get(index)` fires although is_valid() is true.
#[kani::proof]
#[kani::unwind(4)]
fn kf_tree_f32_subnormal_total_panics() {
    let t = WeightedTreeIndex::<f32>::new([f32::from_bits(451), -0.0f32]).unwrap();   // 6.32e-43, -0.0
    assert!(t.is_valid());
    let mut rng = super::rngs::WordsRng::<2>::of([4293766655u64, 4293766655u64]);
    let r = t.try_sample(&mut rng);
    kani::assert(r.is_ok(), "is_valid() implies try_sample succeeds");
}

// (a bounded unit for WeightedAliasIndex<f32> on 2-vectors was tried and did not finish in 60 min: float alias tables are not reached)

/// WeightedTreeIndex<f32>: `push` and `update` reject a NaN or negative weight with InvalidWeight and leave the tree
/// unchanged (float weights are outside the Verus proof).  Bounded: a 2-node tree.
#[kani::proof]
#[kani::unwind(4)]
fn c04_tree_f32_invalid_weight_rejected() {
    use rd::weighted::Error;
    let w: [f32; 2] = kani::any();
    kani::assume(w[0] >= 0.0 && w[0] <= 1e30 && w[1] >= 0.0 && w[1] <= 1e30);
    let mut t = WeightedTreeIndex::<f32>::new([w[0], w[1]]).unwrap();
    let before = (t.get(0).to_bits(), t.get(1).to_bits(), t.len());
    let x: f32 = kani::any();
    kani::assume(!(x >= 0.0));                       // NaN or negative (including -inf)
    kani::cover!(x.is_nan(), "NaN weight reachable");
    let i: usize = kani::any();
    kani::assume(i < 2);
    let r = if kani::any() { t.update(i, x) } else { t.push(x) };
    kani::assert(r == Err(Error::InvalidWeight), "NaN / negative weight is rejected with InvalidWeight");
    kani::assert((t.get(0).to_bits(), t.get(1).to_bits(), t.len()) == before, "a rejected operation leaves the tree unchanged");
}

// ---------------------------------------------------------------- rand's integer range samplers (ASSUMED by the Verus units)
// The Verus proofs of C08/C10 assume `rng.random_range(0..total)` returns `0 <= t < total` and `Uniform::new(lo, hi)`
// succeeds for lo < hi with `sample` returning `lo <= t < hi`.  Discharged here against rand's REAL code
// (Canon's method: loop-free, so all (low, high) x all words is complete; Lemire's rejection loop in `Uniform::sample`:
// one iteration - the loop carries no state, every iteration draws a fresh word).
macro_rules! random_range_contract {
    ($name:ident, $uname:ident, $T:ty) => {
        #[kani::proof]
        fn $name() {
            use rand::RngExt;
            let low: $T = kani::any(); let high: $T = kani::any();
            kani::assume(low < high);
            let mut rng = super::rngs::WordsRng::<4>::any();
            let t: $T = rng.random_range(low..high);
            kani::cover!(low == 0 && t == high - 1, "largest target reachable");
            kani::assert(low <= t && t < high, "random_range(low..high) inside [low, high)");
            kani::assert(rng.i <= 4, "at most two draws of the sample type");
        }
        #[kani::proof]
        #[kani::unwind(1)]
        fn $uname() {
            use rand::distr::{Distribution, Uniform};
            let low: $T = kani::any(); let high: $T = kani::any();
            let u = Uniform::<$T>::new(low, high);
            kani::assert(u.is_ok() == (low < high), "Uniform::new(low, high) is Ok iff low < high");
            if let Ok(u) = u {
                let mut rng = super::rngs::WordsRng::<4>::any();
                let t: $T = u.sample(&mut rng);
                kani::cover!(t == high - 1, "largest value reachable");
                kani::cover!(t == low, "smallest value reachable");
                kani::assert(low <= t && t < high, "Uniform(low, high).sample inside [low, high)");
            }
        }
    };
}
random_range_contract!(rand_random_range_u8, rand_uniform_sample_u8, u8);
random_range_contract!(rand_random_range_u16, rand_uniform_sample_u16, u16);
random_range_contract!(rand_random_range_i8, rand_uniform_sample_i8, i8);
random_range_contract!(rand_random_range_i16, rand_uniform_sample_i16, i16);

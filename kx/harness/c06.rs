//! C06 units: (a) the ziggurat table invariants, a closed finite obligation set checked on the concrete constants;
//! (b) the step contract of `utils::ziggurat` for one arbitrary iteration (first iteration of the outer loop, first
//! iteration of the normal tail loop), for every RNG word.
use super::lc;
use super::rd;
use super::rngs::WordsRng;
use crate::ziggurat_tables::*;
use rd::Distribution;

fn rel_close(a: f64, b: f64, rel: f64) -> bool { let d = if a > b { a - b } else { b - a }; d <= rel * (if b < 0.0 { -b } else { b }) }
fn abs_close(a: f64, b: f64, tol: f64) -> bool { let d = if a > b { a - b } else { b - a }; d <= tol }

/// enclosure of the normal tail area  int_R^inf exp(-x^2/2) dx  for the pinned R = 3.654152885361008796
/// = sqrt(pi/2) * erfc(R/sqrt(2)) = 3.2339576466332126e-4 (computed offline with 40-digit arithmetic, mpmath);
/// TRUSTED constant, tied to the table by the obligation X[1] == R.
const NORM_TAIL_AREA: f64 = 3.2339576466332126e-4;

macro_rules! table_unit {
    ($name:ident, $X:ident, $F:ident, $R:ident, $pdf:expr, $lo:expr, $hi:expr, $base_check:expr) => {
        /// structural + defining equations for table entries [$lo, $hi): end points, X[1] = R, strict monotonicity,
        /// F[i] = pdf(X[i]) to 1e-14 (real libm exp on concrete data), equal areas to 1e-8 relative.
        #[kani::proof]
        #[kani::unwind(260)]
        fn $name() {
            let pdf: fn(f64) -> f64 = $pdf;
            let v = $X[0] * $F[1];                    // area of every layer (base strip + tail has the same area)
            kani::assert($X[256] == 0.0, "X[256] == 0");
            kani::assert($F[256] == 1.0, "F[256] == 1");
            kani::assert($X[1] == $R, "X[1] == R");
            assert!(v > 0.0);
            let mut i = $lo;
            while i < $hi {
                kani::assert($X[i] > $X[i + 1], "X strictly decreasing");
                kani::assert($F[i] < $F[i + 1], "F strictly increasing");
                kani::assert(abs_close($F[i], pdf($X[i]), 1e-14), "F[i] == pdf(X[i]) to 1e-14");
                if i >= 1 {
                    kani::assert(rel_close($X[i] * ($F[i + 1] - $F[i]), v, 1e-8), "layer i has area v to 1e-8 relative");
                }
                i += 1;
            }
            let base: fn(f64) -> bool = $base_check;
            kani::assert(base(v), "base strip + tail == v");
        }
    };
}
fn norm_pdf(x: f64) -> f64 { <f64 as rd::num_traits::Float>::exp(-x * x / 2.0) }   // num-traits -> libm::exp (the real libm; concrete argument)
fn exp_pdf(x: f64) -> f64 { <f64 as rd::num_traits::Float>::exp(-x) }
// NORM: base strip R*F[1] plus the tail area equals v;  EXP: tail area is exp(-R) = F[1], so X[0] = R + 1
table_unit!(c06_norm_table_a, ZIG_NORM_X, ZIG_NORM_F, ZIG_NORM_R, norm_pdf, 0, 64, |v| rel_close(ZIG_NORM_R * ZIG_NORM_F[1] + NORM_TAIL_AREA, v, 1e-8));
table_unit!(c06_norm_table_b, ZIG_NORM_X, ZIG_NORM_F, ZIG_NORM_R, norm_pdf, 64, 128, |v| v > 0.0);
table_unit!(c06_norm_table_c, ZIG_NORM_X, ZIG_NORM_F, ZIG_NORM_R, norm_pdf, 128, 192, |v| v > 0.0);
table_unit!(c06_norm_table_d, ZIG_NORM_X, ZIG_NORM_F, ZIG_NORM_R, norm_pdf, 192, 256, |v| v > 0.0);
table_unit!(c06_exp_table_a, ZIG_EXP_X, ZIG_EXP_F, ZIG_EXP_R, exp_pdf, 0, 64, |_v| abs_close(ZIG_EXP_X[0], ZIG_EXP_R + 1.0, 1e-8));
table_unit!(c06_exp_table_b, ZIG_EXP_X, ZIG_EXP_F, ZIG_EXP_R, exp_pdf, 64, 128, |v| v > 0.0);
table_unit!(c06_exp_table_c, ZIG_EXP_X, ZIG_EXP_F, ZIG_EXP_R, exp_pdf, 128, 192, |v| v > 0.0);
table_unit!(c06_exp_table_d, ZIG_EXP_X, ZIG_EXP_F, ZIG_EXP_R, exp_pdf, 192, 256, |v| v > 0.0);

/// One arbitrary ziggurat step of StandardNormal (body of the outer loop run once, tail loop run once): for every
/// first word and every following word the returned value is not NaN, carries the sign of u, lies in the selected
/// layer's rectangle (|x| <= X[i]) for i > 0, and for i = 0 is either inside the base strip or beyond R (tail).
#[kani::proof]
#[kani::unwind(1)]
#[kani::stub(f64::exp, lc::exp)]
#[kani::stub(f64::ln, lc::log)]
fn c06_normal_step() {
    let mut rng = WordsRng::<4>::any();
    let w0 = rng.w[0];
    let x: f64 = rd::StandardNormal.sample(&mut rng);
    let i = (w0 & 0xff) as usize;
    let neg = (w0 >> 63) == 0;           // u = into_float_with_exponent(1)(bits >> 12) - 3.0 in [-1, 1): sign = !top bit
    let ax = if x < 0.0 { -x } else { x };
    // (with the tail `while` loop cut at its head this unit covers the rectangle and wedge returns; the tail
    //  branch has its own units c06_normal_tail_pos / _neg)
    kani::cover!(i > 0 && rng.i == 2, "wedge branch returns");
    kani::cover!(rng.i == 1, "rectangle branch returns");
    kani::assert(!x.is_nan(), "StandardNormal step returns NaN");
    kani::assert(ax <= ZIG_NORM_X[0] || (i == 0 && ax >= ZIG_NORM_R), "value in the base strip or in the tail");
    if i > 0 { kani::assert(ax <= ZIG_NORM_X[i], "value inside layer i"); }
    if x != 0.0 { kani::assert((x < 0.0) == neg, "sign of the value is the sign of u"); }
}

macro_rules! normal_tail {
    ($name:ident, $w0:expr, $neg:expr) => {
        /// Normal tail branch (layer 0, |u| beyond the base strip) for EVERY pair of tail words, one tail iteration:
        /// the result is not NaN, lies beyond R and carries the sign of u.
        #[kani::proof]
        #[kani::unwind(2)]
        #[kani::stub(f64::exp, lc::exp)]
        #[kani::stub(f64::ln, lc::log)]
        fn $name() {
            let t: [u64; 2] = kani::any();
            let mut rng = WordsRng::<3>::of([$w0, t[0], t[1]]);
            let x: f64 = rd::StandardNormal.sample(&mut rng);
            kani::cover!(rng.i == 3, "tail returns after one tail iteration");
            kani::assert(!x.is_nan(), "normal tail returns NaN");
            if $neg { kani::assert(x <= -ZIG_NORM_R, "negative tail value is <= -R"); } else { kani::assert(x >= ZIG_NORM_R, "positive tail value is >= R"); }
        }
    };
}
// u = into_float_with_exponent(1)(bits >> 12) - 3.0: all-ones mantissa -> u just below +1; zero mantissa -> u = -1; low byte 0 -> layer 0
normal_tail!(c06_normal_tail_pos, 0xffff_ffff_ffff_f000u64, false);
normal_tail!(c06_normal_tail_neg, 0x0000_0000_0000_0000u64, true);

/// One arbitrary ziggurat step of Exp1: not NaN, > 0 (the support is open at 0; Exp(0) = +inf and Gamma(1, inf) rely on it), inside layer i for i > 0, and for i = 0 in the base strip or >= R.
/// KNOWN FINDING excluded: the tail branch returns +inf when its uniform draw is exactly 0 (R - ln(0)); pinned below.
#[kani::proof]
#[kani::unwind(1)]
#[kani::stub(f64::exp, lc::exp)]
#[kani::stub(f64::ln, lc::log)]
fn c06_exp_step() {
    let mut rng = WordsRng::<4>::any();
    let w0 = rng.w[0];
    let x: f64 = rd::Exp1.sample(&mut rng);
    let i = (w0 & 0xff) as usize;
    kani::cover!(i == 0 && x >= ZIG_EXP_R, "tail branch returns");
    kani::cover!(i > 0, "rectangle/wedge branch returns");
    kani::assert(!x.is_nan(), "Exp1 step returns NaN");
    kani::assert(x > 0.0, "Exp1 step returns a value that is not strictly positive");
    kani::assert(x <= ZIG_EXP_X[0] || (i == 0 && x >= ZIG_EXP_R), "value in the base strip or in the tail");
    if i > 0 { kani::assert(x <= ZIG_EXP_X[i], "value inside layer i"); }
    if !(i == 0 && (rng.w[1] >> 11) == 0) { kani::assert(x.is_finite(), "Exp1 step returns an infinite value"); }
}

/// Exp1 tail branch (layer 0, u beyond the base strip; first word fixed) for every following word: the value is
/// >= R, not NaN, and exactly ONE further word is drawn for it (the tail is R + Exp(1) of a FRESH uniform).
#[kani::proof]
#[kani::unwind(1)]
#[kani::stub(f64::exp, lc::exp)]
#[kani::stub(f64::ln, lc::log)]
fn c06_exp_tail() {
    let t: [u64; 2] = kani::any();
    let mut rng = WordsRng::<3>::of([0xffff_ffff_ffff_f000u64, t[0], t[1]]);
    let x: f64 = rd::Exp1.sample(&mut rng);
    kani::cover!(x >= ZIG_EXP_R, "tail returns");
    kani::assert(!x.is_nan() && x >= ZIG_EXP_R, "exponential tail value is >= R");
    kani::assert(rng.i == 2, "the tail draws exactly one fresh uniform");
}

/// KNOWN FINDING: Exp1 returns +inf when the tail branch draws a uniform of exactly 0:  R - ln(0)
#[kani::proof]
#[kani::unwind(1)]
#[kani::stub(f64::exp, lc::exp)]
#[kani::stub(f64::ln, lc::log)]
fn kf_exp1_tail_inf() {
    // word 0: layer 0 and u close to 1 (falls through the rectangle test); word 1: uniform draw 0
    let mut rng = WordsRng::<4>::of([0xffff_ffff_ffff_ff00, 0, 0, 0]);
    let x: f64 = rd::Exp1.sample(&mut rng);
    kani::assert(x.is_finite(), "Exp1 step returns an infinite value");
}

//! RNGs for harnesses: every word symbolic (`AnyRng`), or a fixed array of symbolic words with a counter.
use rand::rand_core::{Infallible, TryRng};

/// every call returns a fresh nondeterministic word: quantifies over ALL streams
pub struct AnyRng;
impl TryRng for AnyRng {
    type Error = Infallible;
    fn try_next_u32(&mut self) -> Result<u32, Infallible> { Ok(kani::any()) }
    fn try_next_u64(&mut self) -> Result<u64, Infallible> { Ok(kani::any()) }
    fn try_fill_bytes(&mut self, _: &mut [u8]) -> Result<(), Infallible> { unimplemented!() }
}

/// N symbolic words drawn up front (so that a counterexample lists them in stream order), then wraps around;
/// `i` counts the words consumed.
pub struct WordsRng<const N: usize> { pub w: [u64; N], pub i: usize }
impl<const N: usize> WordsRng<N> {
    pub fn any() -> Self { WordsRng { w: kani::any(), i: 0 } }
    pub fn of(w: [u64; N]) -> Self { WordsRng { w, i: 0 } }
}
impl<const N: usize> TryRng for WordsRng<N> {
    type Error = Infallible;
    fn try_next_u32(&mut self) -> Result<u32, Infallible> { let v = self.w[self.i % N]; self.i += 1; Ok(v as u32) }
    fn try_next_u64(&mut self) -> Result<u64, Infallible> { let v = self.w[self.i % N]; self.i += 1; Ok(v) }
    fn try_fill_bytes(&mut self, _: &mut [u8]) -> Result<(), Infallible> { unimplemented!() }
}

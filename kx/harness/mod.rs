//! Verification harness module, compiled only under cfg(kani) inside an overlay copy of the crate.
#![allow(dead_code, unused_imports, clippy::all)]
pub use crate as rd;
pub mod spec;
pub mod lc;
pub mod rngs;
mod c04_gen;
mod c04_extra;
mod c03;
mod c06;
pub mod c07;
mod weights;

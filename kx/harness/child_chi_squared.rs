//! cfg(kani) child module of src/chi_squared.rs: `kani::Arbitrary` for `ChiSquared` and its error type (see child_gamma.rs)
use super::*;
impl<F> kani::Arbitrary for ChiSquared<F>
where
    F: Float + kani::Arbitrary,
    StandardNormal: Distribution<F>,
    Exp1: Distribution<F>,
    Open01: Distribution<F>,
{
    fn any() -> Self {
        let repr = if kani::any() { ChiSquaredRepr::DoFExactlyOne } else { ChiSquaredRepr::DoFAnythingElse(kani::any()) };
        ChiSquared { repr }
    }
}
impl kani::Arbitrary for Error {
    fn any() -> Self { Error::DoFTooSmall }
}

//! cfg(kani) child module of src/pareto.rs (sees the private fields).  C07 units for Pareto (f32, Kissat):
//!  * scale acts as an exact linear map on a fixed stream.  Run B is built with a struct literal that SHARES run A's
//!    derived field, so that only the one product under test is duplicated (a second division would be a divider miter).
use super::*;
use crate::verif_kani::rngs::WordsRng;

fn same(a: f32, b: f32) -> bool { a == b || (a.is_nan() && b.is_nan()) }

// (a unit asserting that the stored reciprocal equals the documented 1/shape re-evaluates a division: a divider
// miter that does not close in 30 min even in f32 - not reached)

/// Pareto(scale, shape) on a word == scale * Pareto(1, shape) on the same word; one word each
#[kani::proof]
#[kani::stub(libm::powf, crate::verif_kani::c07::powf_m)]
fn c07_pareto_scale_f32() {
    let (scale, shape): (f32, f32) = (kani::any(), kani::any());
    kani::assume(scale >= 1e-15 && scale <= 1e15 && shape >= 0.5 && shape <= 1e3);
    let a = Pareto::<f32>::new(scale, shape).unwrap();
    let b = Pareto::<f32> { scale: 1.0, inv_neg_shape: a.inv_neg_shape };
    let w: u64 = kani::any();
    let (mut r1, mut r2) = (WordsRng::<1>::of([w]), WordsRng::<1>::of([w]));
    let xa: f32 = a.sample(&mut r1);
    let xb: f32 = b.sample(&mut r2);
    kani::assert(same(xa, scale * xb), "Pareto(scale, shape) == scale * Pareto(1, shape) on the same stream");
    kani::assert(r1.i == r2.i && r1.i == 1, "same number of words consumed");
}

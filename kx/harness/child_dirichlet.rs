//! cfg(kani) child module of src/multi/dirichlet.rs (has access to the private DirichletFromBeta / DirichletRepr).
//! C11 units: what contracts can pin down about Dirichlet is its STRUCTURE (the law is not decidable here).
use super::*;
use crate::verif_kani::lc;

fn is_from_beta<F>(d: &Dirichlet<F>) -> bool
where F: Float, StandardNormal: Distribution<F>, Exp1: Distribution<F>, Open01: Distribution<F> {
    matches!(d.repr, DirichletRepr::FromBeta(_))
}

fn doc_err(a: f64) -> Option<Error> {
    // documented per-entry conditions, in the documented order of the variants
    if !(a > 0.0) { return Some(Error::AlphaTooSmall); }
    if a.is_infinite() { return Some(Error::AlphaInfinite); }
    if !a.is_normal() { return Some(Error::AlphaSubnormal); }
    None
}

/// Dirichlet::new on every 2-vector (all bit patterns): Err iff a documented condition holds for some entry and the
/// variant's condition holds for SOME entry; Ok otherwise with sample_len() == 2 and the method chosen by the
/// documented 0.1 threshold; never panics.
#[kani::proof]
#[kani::unwind(4)]
#[kani::stub(libm::sqrt, lc::sqrt_c)]
fn c11_dirichlet_new_len2() {
    let a: [f64; 2] = kani::any();
    let r = Dirichlet::<f64>::new(&a);
    let e0 = doc_err(a[0]);
    let e1 = doc_err(a[1]);
    kani::cover!(r.is_ok(), "Ok reachable");
    kani::cover!(r.is_err(), "Err reachable");
    match r {
        Err(e) => {
            kani::assert(e0.is_some() || e1.is_some(), "Err only when some entry violates a documented condition");
            let holds = |a: f64| match e { Error::AlphaTooSmall => !(a > 0.0), Error::AlphaInfinite => a.is_infinite(), Error::AlphaSubnormal => a > 0.0 && a.is_finite() && !a.is_normal(), _ => false };
            kani::assert(holds(a[0]) || holds(a[1]), "the variant returned is one whose documented condition holds for some entry");
        }
        Ok(d) => {
            kani::assert(e0.is_none() && e1.is_none(), "Ok only for valid entries");
            kani::assert(d.sample_len() == 2, "sample_len() == alpha.len()");
            kani::assert(is_from_beta(&d) == (a[0] <= 0.1 && a[1] <= 0.1), "Beta method iff every alpha <= 0.1");
        }
    }
}

/// Dirichlet::new rejects vectors shorter than 2 (lengths 0 and 1, any content)
#[kani::proof]
#[kani::unwind(3)]
fn c11_dirichlet_new_too_short() {
    let a: [f64; 1] = kani::any();
    kani::assert(Dirichlet::<f64>::new(&a) == Err(Error::AlphaTooShort), "length 1 -> AlphaTooShort");
    kani::assert(Dirichlet::<f64>::new(&a[..0]) == Err(Error::AlphaTooShort), "length 0 -> AlphaTooShort");
}

/// stick-breaking structure for n = 3: sampler j is Beta with the parameter set {alpha_j, alpha_{j+1} + ... + alpha_{n-1}}
/// (right-to-left float sum), bit for bit.  This is the obligation an index slip in the reversed cumulative sum violates.
#[kani::proof]
#[kani::unwind(5)]
#[kani::stub(libm::sqrt, lc::sqrt_c)]
fn c11_from_beta_structure_len3() {
    let a: [f64; 3] = kani::any();
    kani::assume(a[0] >= 1e-3 && a[0] <= 0.1 && a[1] >= 1e-3 && a[1] <= 0.1 && a[2] >= 1e-3 && a[2] <= 0.1);
    let d = DirichletFromBeta::new(&a).unwrap();
    kani::assert(d.samplers.len() == 2, "n - 1 Beta samplers");
    kani::assert(d.sample_len() == 3, "sample_len() == alpha.len()");
    let t1 = a[2];
    let t0 = a[2] + a[1];
    let (x0, y0) = d.samplers[0].verif_ab();
    let (x1, y1) = d.samplers[1].verif_ab();
    let same = |x: f64, y: f64, p: f64, q: f64| (x.to_bits() == p.to_bits() && y.to_bits() == q.to_bits()) || (x.to_bits() == q.to_bits() && y.to_bits() == p.to_bits());
    kani::assert(same(x0, y0, a[0], t0), "Beta_0 has parameters {alpha_0, alpha_1 + alpha_2}");
    kani::assert(same(x1, y1, a[1], t1), "Beta_1 has parameters {alpha_1, alpha_2}");
}

/// sample_to_slice panics iff output.len() != sample_len()  (checked on the length test that precedes any sampling)
#[kani::proof]
#[kani::unwind(5)]
#[kani::stub(libm::sqrt, lc::sqrt_c)]
#[kani::should_panic]
fn c11_sample_to_slice_wrong_len_panics() {
    let d = Dirichlet::<f64>::new(&[0.05, 0.05]).unwrap();
    let mut out = [0.0f64; 3];
    let mut rng = crate::verif_kani::rngs::AnyRng;
    d.sample_to_slice(&mut rng, &mut out);
}

// (a unit comparing DirichletFromGamma::new(alpha).samplers[j] with Gamma::new(alpha_j, 1) for n = 2 was tried with a memoised
// sqrt contract and did not finish in 60 min - the gamma-normalisation structure is not reached)

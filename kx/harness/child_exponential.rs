//! cfg(kani) child module of src/exponential.rs: `kani::Arbitrary` for `Exp` (any stored value), needed so that callers
//! can be verified against the CONTRACT of a constructor returning a type that contains an `Exp` (kani::stub_verified).
use super::*;
impl<F> kani::Arbitrary for Exp<F>
where
    F: Float + kani::Arbitrary,
    Exp1: Distribution<F>,
{
    fn any() -> Self { Exp { lambda_inverse: kani::any() } }
}

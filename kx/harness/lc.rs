//! ASSUMED contracts for libm's transcendental functions (special values, sign, coarse range only - nothing about
//! accuracy), used as Kani stubs; and EXACT replacements (CBMC intrinsics) for sqrt/floor/ceil/trunc/fabs.
//! Every nondeterministic result is constrained only by IEEE-754 / C99 Annex F facts that hold for any
//! faithfully-rounded implementation.

// ---------------------------------------------------------------- exact
pub fn sqrt(x: f64) -> f64 { core::intrinsics::sqrtf64(x) }
pub fn sqrtf(x: f32) -> f32 { core::intrinsics::sqrtf32(x) }
pub fn floor(x: f64) -> f64 { core::intrinsics::floorf64(x) }
pub fn floorf(x: f32) -> f32 { core::intrinsics::floorf32(x) }
pub fn ceil(x: f64) -> f64 { core::intrinsics::ceilf64(x) }
pub fn ceilf(x: f32) -> f32 { core::intrinsics::ceilf32(x) }
pub fn trunc(x: f64) -> f64 { core::intrinsics::truncf64(x) }
pub fn truncf(x: f32) -> f32 { core::intrinsics::truncf32(x) }
pub fn fabs(x: f64) -> f64 { f64::from_bits(x.to_bits() & 0x7fff_ffff_ffff_ffff) }
pub fn fabsf(x: f32) -> f32 { f32::from_bits(x.to_bits() & 0x7fff_ffff) }

// ---------------------------------------------------------------- assumed
macro_rules! sqrt_contract {
    ($F:ty, $name:ident) => {
        /// sqrt as a contract (cheaper than CBMC's exact model, which costs two symbolic multiplications):
        /// NaN for x<0 or NaN; sqrt(+-0)=+-0; sqrt(+inf)=+inf; sqrt(1)=1; otherwise finite, > 0, between 1 and x.
        pub fn $name(x: $F) -> $F {
            if x.is_nan() || x < 0.0 { return <$F>::NAN; }
            if x == 0.0 || x == <$F>::INFINITY || x == 1.0 { return x; }
            let r: $F = kani::any();
            kani::assume(r.is_finite() && r > 0.0);
            if x < 1.0 { kani::assume(r >= x && r <= 1.0); } else { kani::assume(r <= x && r >= 1.0); }
            r
        }
    };
}
sqrt_contract!(f64, sqrt_c);
sqrt_contract!(f32, sqrtf_c);

macro_rules! contracts {
    ($F:ty, $log:ident, $exp:ident, $pow:ident, $tan:ident, $floor:ident, $fabs:ident, $lnmax:expr, $lnmin:expr, $expmax:expr, $odd_limit:expr) => {
        /// ln: NaN for x<0 or NaN; -inf at +-0; +inf at +inf; ln(1)=+0; otherwise finite, negative below 1, positive above 1,
        /// within [ln(min subnormal), ln(MAX)].
        pub fn $log(x: $F) -> $F {
            if x.is_nan() || x < 0.0 { return <$F>::NAN; }
            if x == 0.0 { return <$F>::NEG_INFINITY; }
            if x == <$F>::INFINITY { return <$F>::INFINITY; }
            if x == 1.0 { return 0.0; }
            let r: $F = kani::any();
            kani::assume(r.is_finite());
            if x < 1.0 { kani::assume(r < 0.0 && r >= $lnmin); } else { kani::assume(r > 0.0 && r <= $lnmax); }
            r
        }
        /// exp: NaN<->NaN; exp(-inf)=+0; exp(+inf)=+inf; exp(+-0)=1; r >= 0; r >= 1 iff x >= 0; +inf only above ln(MAX).
        pub fn $exp(x: $F) -> $F {
            if x.is_nan() { return <$F>::NAN; }
            if x == <$F>::NEG_INFINITY { return 0.0; }
            if x == <$F>::INFINITY { return <$F>::INFINITY; }
            if x == 0.0 { return 1.0; }
            let r: $F = kani::any();
            kani::assume(r >= 0.0);
            if x > 0.0 { kani::assume(r >= 1.0); } else { kani::assume(r <= 1.0); }
            if x <= $expmax { kani::assume(r.is_finite()); }
            r
        }
        /// pow: C99 F.9.4.4 special cases in full; for finite x > 0: r >= 0 and (r >= 1 iff (x-1)*y >= 0); never NaN
        /// unless the special-case table says so; finite when x is a positive normal number and |y| <= 1.
        pub fn $pow(x: $F, y: $F) -> $F {
            if y == 0.0 { return 1.0; }
            if x == 1.0 { return 1.0; }
            if x.is_nan() || y.is_nan() { return <$F>::NAN; }
            let y_int = y.is_finite() && $floor(y) == y;
            let y_odd = y_int && $fabs(y) < $odd_limit && $floor(y / 2.0) * 2.0 != y;
            if x == 0.0 {
                if y < 0.0 { return if y_odd && x.is_sign_negative() { <$F>::NEG_INFINITY } else { <$F>::INFINITY }; }
                return if y_odd && x.is_sign_negative() { -0.0 } else { 0.0 };
            }
            if y == <$F>::INFINITY { let a = $fabs(x); return if a < 1.0 { 0.0 } else if a == 1.0 { 1.0 } else { <$F>::INFINITY }; }
            if y == <$F>::NEG_INFINITY { let a = $fabs(x); return if a < 1.0 { <$F>::INFINITY } else if a == 1.0 { 1.0 } else { 0.0 }; }
            if x == <$F>::INFINITY { return if y < 0.0 { 0.0 } else { <$F>::INFINITY }; }
            if x == <$F>::NEG_INFINITY {
                if y < 0.0 { return if y_odd { -0.0 } else { 0.0 }; }
                return if y_odd { <$F>::NEG_INFINITY } else { <$F>::INFINITY };
            }
            if x < 0.0 && !y_int { return <$F>::NAN; }
            let r: $F = kani::any();
            kani::assume(!r.is_nan());
            if x > 0.0 {
                kani::assume(r >= 0.0);
                // |y| <= 1 and x a normal number: x^y lies between x and 1/x, both finite (1/MIN_POSITIVE < MAX)
                if x >= <$F>::MIN_POSITIVE && y >= -1.0 && y <= 1.0 { kani::assume(r.is_finite()); }
                if (x > 1.0 && y > 0.0) || (x < 1.0 && y < 0.0) { kani::assume(r >= 1.0); } else { kani::assume(r <= 1.0); }
            } else {
                // negative finite base, integer exponent: sign by parity
                if y_odd { kani::assume(r <= 0.0); } else { kani::assume(r >= 0.0); }
            }
            r
        }
        /// tan: NaN for NaN / +-inf; tan(+-0) = +-0; finite for every other finite argument (no float is an odd multiple of pi/2).
        pub fn $tan(x: $F) -> $F {
            if x.is_nan() || x.is_infinite() { return <$F>::NAN; }
            if x == 0.0 { return x; }
            let r: $F = kani::any();
            kani::assume(r.is_finite());
            r
        }
    };
}
contracts!(f64, log, exp, pow, tan, floor, fabs, 709.79, -744.45, 709.78, 9007199254740992.0);
contracts!(f32, logf, expf, powf, tanf, floorf, fabsf, 88.73, -103.28, 88.72, 16777216.0);

//! cfg(kani) child module of src/beta.rs: read-only accessor for the private parameters (adds a method, changes nothing)
use super::*;
impl<F> Beta<F>
where
    F: Float,
    Open01: Distribution<F>,
{
    /// the stored (a, b) pair (possibly swapped by the constructor; see `switched_params`)
    pub(crate) fn verif_ab(&self) -> (F, F) { (self.a, self.b) }
}

//! cfg(kani) child module of src/hypergeometric.rs (sees the private fields).
//! C03 unit for the inverse-transform (HIN) branch of `Hypergeometric::sample`: for EVERY value of the pre-computed
//! float `initial_p` (i.e. whatever the float set-up produced), every uniform draw, and every struct satisfying the
//! invariant that `Hypergeometric::new` establishes (its Verus postcondition: the reflection contract), the returned
//! value lies in the support [max(0, n+K-N), min(n, K)].  Bounded in the number of loop iterations (k <= 3).
use super::*;
use crate::verif_kani::rngs::AnyRng;

#[kani::proof]
#[kani::unwind(5)]
fn c03_hypergeo_hin_support() {
    let (big_n, big_k, n): (u64, u64, u64) = (kani::any(), kani::any(), kani::any());
    kani::assume(big_n >= 1 && big_n <= (1u64 << 40) && big_k <= big_n && n <= big_n);
    // the integer set-up of `new` (proved separately in Verus VF mode): n1 <= n2, k <= N/2
    let n1 = if big_k > big_n - big_k { big_n - big_k } else { big_k };
    let n2 = big_n - n1;
    let k = if n <= big_n / 2 { n } else { big_n - n };
    kani::assume(k <= 3);
    let lo = if n + big_k > big_n { (n + big_k - big_n) as i64 } else { 0 };
    let hi = (if n < big_k { n } else { big_k }) as i64;
    let ilo = if k > n2 { (k - n2) as i64 } else { 0 };
    let ihi = (if n1 < k { n1 } else { k }) as i64;
    // any (offset_x, sign_x) satisfying the reflection contract
    let sign_x: i64 = if kani::any() { 1 } else { -1 };
    let offset_x: i64 = kani::any();
    kani::assume(offset_x >= -(1i64 << 41) && offset_x <= (1i64 << 41));
    if sign_x == 1 { kani::assume(offset_x + ilo == lo && offset_x + ihi == hi); } else { kani::assume(offset_x - ihi == lo && offset_x - ilo == hi); }
    let initial_p: f64 = kani::any();
    let d = Hypergeometric { n1, n2, k, offset_x, sign_x, sampling_method: SamplingMethod::InverseTransform { initial_p, initial_x: ilo } };
    let mut rng = AnyRng;
    let x = d.sample(&mut rng) as i64;
    kani::cover!(x == hi && hi > lo, "upper end of the support reachable");
    kani::assert(x >= lo && x <= hi, "Hypergeometric sample outside [max(0, n+K-N), min(n, K)]");
}

//! C07 units: location/scale parameters act as exact affine maps on a fixed RNG stream.  Relational (two-run)
//! obligations: each contains one symbolic x symbolic float product on both sides (a multiplier miter), which is
//! decidable here only for the f32 instantiation and with `--solver kissat` (measured, DESIGN.md 2.8).  The sampler
//! source is generic over F, so these are obligations on the same source text that f64 runs.
//! libm calls are replaced by MEMOISING contract stubs: same argument bits -> same result in both runs.
use super::lc;
use super::rd;
use super::rngs::WordsRng;
use core::sync::atomic::{AtomicBool, AtomicU32, Ordering::Relaxed};
use rd::Distribution;

fn same(a: f32, b: f32) -> bool { a == b || (a.is_nan() && b.is_nan()) }

macro_rules! memo1 {
    ($name:ident, $inner:path, $V:ident, $X:ident, $R:ident) => {
        static $V: AtomicBool = AtomicBool::new(false);
        static $X: AtomicU32 = AtomicU32::new(0);
        static $R: AtomicU32 = AtomicU32::new(0);
        /// one-entry memo around the assumed contract: a function of its argument bits
        pub fn $name(x: f32) -> f32 {
            if $V.load(Relaxed) && $X.load(Relaxed) == x.to_bits() { return f32::from_bits($R.load(Relaxed)); }
            let r = $inner(x);
            $X.store(x.to_bits(), Relaxed); $R.store(r.to_bits(), Relaxed); $V.store(true, Relaxed);
            r
        }
    };
}
memo1!(logf_slot0, lc::logf, LV, LX, LR);
static L2V: AtomicBool = AtomicBool::new(false);
static L2X: AtomicU32 = AtomicU32::new(0);
static L2R: AtomicU32 = AtomicU32::new(0);
/// two-entry memo (Gumbel takes two logarithms per draw): slot 0 is filled first, slot 1 second, both are then reused
pub fn logf_m(x: f32) -> f32 {
    if LV.load(Relaxed) && LX.load(Relaxed) == x.to_bits() { return f32::from_bits(LR.load(Relaxed)); }
    if L2V.load(Relaxed) && L2X.load(Relaxed) == x.to_bits() { return f32::from_bits(L2R.load(Relaxed)); }
    if !LV.load(Relaxed) { return logf_slot0(x); }
    let r = lc::logf(x);
    L2X.store(x.to_bits(), Relaxed); L2R.store(r.to_bits(), Relaxed); L2V.store(true, Relaxed);
    r
}
memo1!(expf_m, lc::expf, EV, EX, ER);
memo1!(tanf_m, lc::tanf, TV, TX, TR);

static PV: AtomicBool = AtomicBool::new(false);
static PX: AtomicU32 = AtomicU32::new(0);
static PY: AtomicU32 = AtomicU32::new(0);
static PR: AtomicU32 = AtomicU32::new(0);
pub fn powf_m(x: f32, y: f32) -> f32 {
    if PV.load(Relaxed) && PX.load(Relaxed) == x.to_bits() && PY.load(Relaxed) == y.to_bits() { return f32::from_bits(PR.load(Relaxed)); }
    let r = lc::powf(x, y);
    PX.store(x.to_bits(), Relaxed); PY.store(y.to_bits(), Relaxed); PR.store(r.to_bits(), Relaxed); PV.store(true, Relaxed);
    r
}

/// Normal::from_zscore(z) == mean + std_dev * z  for every mean, every finite std_dev (negative allowed), every z
#[kani::proof]
fn c07_normal_from_zscore_f32() {
    let (mean, sd, z): (f32, f32, f32) = (kani::any(), kani::any(), kani::any());
    let n = rd::Normal::<f32>::new(mean, sd);
    kani::cover!(n.is_ok() && sd < 0.0, "negative std_dev accepted");
    if let Ok(n) = n {
        kani::assert(same(n.from_zscore(z), mean + sd * z), "Normal::from_zscore(z) == mean + std_dev * z");
    }
}

/// LogNormal::from_zscore(z) == exp(mu + sigma * z)
#[kani::proof]
#[kani::stub(libm::expf, expf_m)]
fn c07_lognormal_from_zscore_f32() {
    let (mu, sigma, z): (f32, f32, f32) = (kani::any(), kani::any(), kani::any());
    if let Ok(d) = rd::LogNormal::<f32>::new(mu, sigma) {
        let want = <f32 as rd::num_traits::Float>::exp(mu + sigma * z);
        kani::assert(same(d.from_zscore(z), want), "LogNormal::from_zscore(z) == exp(mu + sigma * z)");
    }
}

/// Cauchy(median, scale) on a word == median + scale * Cauchy(0, 1) on the same word; one word each
#[kani::proof]
#[kani::stub(libm::tanf, tanf_m)]
fn c07_cauchy_affine_f32() {
    let (median, scale): (f32, f32) = (kani::any(), kani::any());
    kani::assume(median.abs() <= 1e15 && scale >= 1e-15 && scale <= 1e15);
    let a = rd::Cauchy::<f32>::new(median, scale).unwrap();
    let b = rd::Cauchy::<f32>::new(0.0, 1.0).unwrap();
    let w: u64 = kani::any();
    let (mut r1, mut r2) = (WordsRng::<1>::of([w]), WordsRng::<1>::of([w]));
    let xa: f32 = a.sample(&mut r1);
    let xb: f32 = b.sample(&mut r2);
    kani::assert(same(xa, median + scale * xb), "Cauchy(median, scale) == median + scale * Cauchy(0, 1) on the same stream");
    kani::assert(r1.i == r2.i && r1.i == 1, "same number of words consumed");
}

/// Gumbel(location, scale) == location + scale * Gumbel(0, 1) on the same word
#[kani::proof]
#[kani::stub(libm::logf, logf_m)]
fn c07_gumbel_affine_f32() {
    let (location, scale): (f32, f32) = (kani::any(), kani::any());
    kani::assume(location.abs() <= 1e15 && scale >= 1e-15 && scale <= 1e15);
    let a = rd::Gumbel::<f32>::new(location, scale).unwrap();
    let b = rd::Gumbel::<f32>::new(0.0, 1.0).unwrap();
    let w: u64 = kani::any();
    let (mut r1, mut r2) = (WordsRng::<1>::of([w]), WordsRng::<1>::of([w]));
    let xa: f32 = a.sample(&mut r1);
    let xb: f32 = b.sample(&mut r2);
    // Gumbel(0,1) = 0 - 1 * g  with g = ln(-ln u);  the documented map is  location - scale * g = location + scale * xb
    kani::assert(same(xa, location + scale * xb), "Gumbel(location, scale) == location + scale * Gumbel(0, 1) on the same stream");
    kani::assert(r1.i == r2.i && r1.i == 1, "same number of words consumed");
}

macro_rules! frechet_affine {
    ($name:ident, $shape:expr) => {
        /// Frechet(location, scale, SHAPE) == location + scale * Frechet(0, 1, SHAPE) on the same word, for a CONCRETE shape
        /// (both runs recompute 1/shape inside `sample`; with a symbolic shape that is a divider miter on top of the
        /// multiplier miter and does not close: > 30 min)
        #[kani::proof]
        #[kani::stub(libm::logf, logf_m)]
        #[kani::stub(libm::powf, powf_m)]
        fn $name() {
            let (location, scale): (f32, f32) = (kani::any(), kani::any());
            let shape: f32 = $shape;
            kani::assume(location.abs() <= 1e15 && scale >= 1e-15 && scale <= 1e15);
            let a = rd::Frechet::<f32>::new(location, scale, shape).unwrap();
            let b = rd::Frechet::<f32>::new(0.0, 1.0, shape).unwrap();
            let w: u64 = kani::any();
            let (mut r1, mut r2) = (WordsRng::<1>::of([w]), WordsRng::<1>::of([w]));
            let xa: f32 = a.sample(&mut r1);
            let xb: f32 = b.sample(&mut r2);
            kani::assert(same(xa, location + scale * xb), "Frechet(location, scale, shape) == location + scale * Frechet(0, 1, shape) on the same stream");
            kani::assert(r1.i == r2.i && r1.i == 1, "same number of words consumed");
        }
    };
}
frechet_affine!(c07_frechet_affine_shape2_f32, 2.0);
frechet_affine!(c07_frechet_affine_shape075_f32, 0.75);

// (a two-run unit for SkewNormal's exact fast paths (shape 0, +1, -1) was tried: each run walks the ziggurat twice and
// the unit did not finish in 50 min with Kissat - SkewNormal is not reached for C07)

//! C04 units that do not fit the generated proof_for_contract shape.
use super::lc;
use super::rd;
use super::spec;

/// Binomial::new for every (n, p): contract + the internal `f64_to_u64` assertion. Plain loop-free harness (complete):
/// the constructor calls std's f64::powf, whose CBMC model writes errno, which the contract instrumentation rejects.
#[kani::proof]
#[kani::stub(f64::powf, lc::pow)]
#[kani::stub(f64::sqrt, lc::sqrt_c)]
#[kani::stub(f64::floor, lc::floor)]
#[kani::stub(libm::exp, lc::exp)]
#[kani::stub(libm::expf, lc::expf)]
fn c04_binomial_new() {
    let n: u64 = kani::any();
    let p: f64 = kani::any();
    let r = rd::Binomial::new(n, p);
    assert!(spec::binomial_new_post(n, p, &r));
    kani::cover!(r.is_ok(), "Ok reachable");
    kani::cover!(r.is_err(), "Err reachable");
}

/// Geometric::new: the Err/Ok decision is taken before the squaring loop; the loop is cut after one iteration
/// (partial correctness: termination of the loop and k <= 63 are NOT established here).
#[kani::proof]
#[kani::unwind(1)]
fn c04_geometric_new_classification() {
    let p: f64 = kani::any();
    let r = rd::Geometric::new(p);
    assert!(spec::geometric_new_post(p, &r));
    kani::cover!(r.is_ok(), "Ok reachable");
    kani::cover!(r.is_err(), "Err reachable");
}

macro_rules! pert_with_mode {
    ($name:ident, $F:ty) => {
        /// PertBuilder::with_mode for every (min, max, shape, mode).
        #[kani::proof]
        #[kani::stub(libm::sqrt, lc::sqrt_c)]
        #[kani::stub(libm::sqrtf, lc::sqrtf_c)]
        fn $name() {
            let (min, max, shape, mode): ($F, $F, $F, $F) = (kani::any(), kani::any(), kani::any(), kani::any());
            let r = rd::Pert::<$F>::new(min, max).with_shape(shape).with_mode(mode);
            assert!(spec::pert_with_mode_post(min, max, shape, mode, &r));
            kani::cover!(r.is_ok(), "Ok reachable");
            kani::cover!(r.is_err(), "Err reachable");
        }
    };
}
pert_with_mode!(c04_pert_with_mode_f64, f64);
pert_with_mode!(c04_pert_with_mode_f32, f32);

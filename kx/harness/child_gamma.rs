//! cfg(kani) child module of src/gamma.rs: `kani::Arbitrary` for `Gamma` (every representation, any field values) and its
//! error type, so that `Gamma::new` can be replaced by its verified contract in the proofs of its callers.
use super::*;
impl<F> kani::Arbitrary for GammaLargeShape<F>
where
    F: Float + kani::Arbitrary,
    StandardNormal: Distribution<F>,
    Open01: Distribution<F>,
{
    fn any() -> Self { GammaLargeShape { scale: kani::any(), c: kani::any(), d: kani::any() } }
}
impl<F> kani::Arbitrary for Gamma<F>
where
    F: Float + kani::Arbitrary,
    StandardNormal: Distribution<F>,
    Exp1: Distribution<F>,
    Open01: Distribution<F>,
{
    fn any() -> Self {
        let repr = match kani::any::<u8>() % 3 {
            0 => GammaRepr::Large(kani::any()),
            1 => GammaRepr::One(kani::any()),
            _ => GammaRepr::Small(GammaSmallShape { inv_shape: kani::any(), large_shape: kani::any() }),
        };
        Gamma { repr }
    }
}
impl kani::Arbitrary for Error {
    fn any() -> Self {
        match kani::any::<u8>() % 3 { 0 => Error::ShapeTooSmall, 1 => Error::ScaleTooSmall, _ => Error::ScaleTooLarge }
    }
}

"""Build the native replay crate (/verif/replay) against a given checkout of rand_distr.

The build directory and cargo target live under /verif/replay/build (git-ignored); the crate depends on
the repository by path, so every build is from the repository's current working tree."""
import hashlib
import os
import shutil
import subprocess

HERE = os.path.dirname(os.path.dirname(os.path.abspath(__file__)))
RDIR = os.path.join(HERE, "replay")


def build(repo="/repo", bins=None, timeout=900):
    tag = hashlib.sha1(os.path.abspath(repo).encode()).hexdigest()[:10]
    bdir = os.path.join(RDIR, "build", tag)
    os.makedirs(bdir, exist_ok=True)
    with open(os.path.join(RDIR, "Cargo.toml.in")) as f:
        toml = f.read().replace("@REPO@", os.path.abspath(repo))
    with open(os.path.join(bdir, "Cargo.toml"), "w") as f: f.write(toml)
    if os.path.islink(os.path.join(bdir, "src")) or os.path.exists(os.path.join(bdir, "src")):
        if os.path.islink(os.path.join(bdir, "src")): os.unlink(os.path.join(bdir, "src"))
        else: shutil.rmtree(os.path.join(bdir, "src"))
    os.symlink(os.path.join(RDIR, "src"), os.path.join(bdir, "src"))
    # generated sources: the shared contract predicates and the constructor dispatcher
    import sys
    sys.path.insert(0, os.path.join(HERE, "kx"))
    import kunits
    shutil.copy(os.path.join(HERE, "kx", "spec.rs"), os.path.join(RDIR, "src", "spec.rs"))
    gen = kunits.gen_replay_ctor()
    gp = os.path.join(RDIR, "src", "gen_ctor.rs")
    if not os.path.exists(gp) or open(gp).read() != gen:
        with open(gp, "w") as f: f.write(gen)
    lock = os.path.join(repo, "Cargo.lock")
    if os.path.exists(lock) and not os.path.exists(os.path.join(bdir, "Cargo.lock")):
        shutil.copy(lock, os.path.join(bdir, "Cargo.lock"))
    env = dict(os.environ, CARGO_NET_OFFLINE="true", CARGO_TARGET_DIR=os.path.join(RDIR, "build", "target"))
    cmd = ["cargo", "build", "--offline", "--quiet"]
    for b in bins or []: cmd += ["--bin", b]
    p = subprocess.run(cmd, cwd=bdir, env=env, capture_output=True, text=True, timeout=timeout)
    if p.returncode != 0:
        return None, p.stderr[-3000:]
    return os.path.join(RDIR, "build", "target", "debug"), ""


if __name__ == "__main__":
    import sys
    d, err = build(sys.argv[1] if len(sys.argv) > 1 else "/repo")
    print(d or err)

"""Shared helpers for the check driver: scratch space, evidence files, known findings, verdict printing."""
import atexit
import json
import os
import shutil
import tempfile
import time

VERIF = os.path.dirname(os.path.dirname(os.path.abspath(__file__)))
REPO = os.environ.get("VERIF_REPO", "/repo")
EVIDENCE_DIR = os.environ.get("VERIF_EVIDENCE_DIR") or os.path.join(VERIF, "evidence")   # override: seeded runs on a scratch worktree must not touch the committed evidence
REPLAY_DIR = os.path.join(VERIF, "replays")
KNOWN_FINDINGS = os.path.join(VERIF, "known_findings.json")

_scratch = []


def scratch(prefix="verif_"):
    d = tempfile.mkdtemp(prefix=prefix)
    _scratch.append(d)
    return d


@atexit.register
def _cleanup():
    for d in _scratch:
        shutil.rmtree(d, ignore_errors=True)


def tier():
    t = os.environ.get("VERIF_TIER", "quick")
    return t if t in ("quick", "thorough") else "quick"


def seed():
    try: return int(os.environ.get("VERIF_SEED", "0"))
    except ValueError: return 0


def load_known():
    try:
        with open(KNOWN_FINDINGS) as f: return json.load(f)
    except (OSError, ValueError):
        return {"known": [], "fixed": []}


def write_evidence(pid, ev):
    os.makedirs(EVIDENCE_DIR, exist_ok=True)
    path = os.path.join(EVIDENCE_DIR, "%s.json" % pid)
    tmp = path + ".tmp"
    with open(tmp, "w") as f: json.dump(ev, f, indent=1, sort_keys=False)
    os.replace(tmp, path)
    return path


def write_replay(pid, name, obj):
    os.makedirs(REPLAY_DIR, exist_ok=True)
    path = os.path.join(REPLAY_DIR, "%s_%s_%d.json" % (pid, name, int(time.time() * 1000) % 10**10))
    with open(path, "w") as f: json.dump(obj, f, indent=1)
    return path


def finding_matches(k, pid, unit, obligation, witness_text):
    """a known finding suppresses exactly: same property, same unit, same obligation, witness in its class"""
    if k.get("property") != pid or k.get("unit") != unit: return False
    if k.get("obligation") and k["obligation"] not in (obligation or ""): return False
    wc = k.get("witness_contains")
    if wc and not all(x in (witness_text or "") for x in wc): return False
    return True

"""Kani half of the check driver: overlay of /repo's working tree, parallel harness runs, counterexample decoding and
native replay on the real crate, known-finding handling."""
import json
import os
import struct
import subprocess
import sys
import time
from concurrent.futures import ThreadPoolExecutor

HERE = os.path.dirname(os.path.abspath(__file__))
sys.path.insert(0, os.path.join(os.path.dirname(HERE), "kx"))
sys.path.insert(0, HERE)
import common
import replaybuild
import kani as K
import kunits as KU

KANI_ASSUMPTIONS = [
    "ASSUMED contracts for libm ln/exp/pow/tan (and sqrt where the cheap contract is used): IEEE-754/C99 special values, sign and coarse range only - nothing about accuracy (kx/harness/lc.rs)",
    "floor/ceil/trunc/fabs and sqrt (where exact) are CBMC's IEEE-754 operations",
    "CBMC's bit-precise IEEE-754 model of + - * / comparisons and casts; Kani's MIR-to-goto translation; the SAT solver",
    "CBMC's 'NaN on <op>' and 'arithmetic overflow on floating-point' checks are ignored by class: IEEE special values are intended behaviour in this crate",
    "the overlay adds only cfg(kani) modules and kani::requires/ensures attributes to a copy of /repo (kx/kani.py); no executable token is changed",
    "rand's bit-to-float conversions and integer range samplers are verified through (their real code is part of the model)",
]


def units_for(pid, tier):
    us = [u for u in KU.all_units() if pid in u["property"]]
    if tier != "thorough":
        us = [u for u in us if (u.get("tier_by_prop") or {}).get(pid, u.get("tier", "quick")) == "quick"]
    return us


def decode(schema, vals):
    """concrete playback byte vectors -> named values following the harness' documented draw order"""
    out, i = [], 0
    for name, ty in schema:
        if ty.startswith("words"):
            n = int(ty[5:]) if len(ty) > 5 else 1
            # a [u64; N] drawn by one kani::any() arrives as one vector of 8N bytes, or as N vectors
            if i < len(vals) and len(vals[i]) == 8 * n:
                b = vals[i]; i += 1
                out.append((name, "words", [int.from_bytes(bytes(b[8 * k:8 * k + 8]), "little") for k in range(n)]))
            else:
                ws = []
                for _ in range(n):
                    if i < len(vals): ws.append(int.from_bytes(bytes(vals[i]), "little")); i += 1
                out.append((name, "words", ws))
            continue
        if i >= len(vals): break
        b = bytes(vals[i]); i += 1
        bits = int.from_bytes(b, "little")
        if ty == "f64": out.append((name, ty, bits, struct.unpack("<d", b)[0]))
        elif ty == "f32": out.append((name, ty, bits, struct.unpack("<f", b)[0]))
        else: out.append((name, ty, bits, bits))
    return out


def native_replay(repo, unit, decoded):
    """evaluate the same predicate on the real crate for the decoded counterexample; -> (confirmed|None, text)"""
    rp = unit.get("replay")
    if not rp: return None, "no native replay registered for this unit"
    if rp.get("kind") == "search":
        # the verifier's counterexample is over abstracted values (e.g. a havocked float field): look for a concrete
        # failing input of the real API with a bounded native search
        bindir, err = replaybuild.build(repo, bins=[rp["bin"]])
        if not bindir: return None, "replay crate does not build: " + err[-400:]
        try:
            p = subprocess.run([os.path.join(bindir, rp["bin"])] + rp["args"], capture_output=True, text=True, timeout=900)
        except subprocess.TimeoutExpired:
            return None, "native search timed out"
        txt = "$ %s %s\n%s" % (rp["bin"], " ".join(rp["args"]), p.stdout.strip()[:1500])
        return (True if p.returncode == 1 else (False if p.returncode == 0 else None)), txt
    bindir, err = replaybuild.build(repo, bins=["distreplay"])
    if not bindir: return None, "replay crate does not build: " + err[-400:]
    LATTICE = [0, (1 << 64) - 1, 1 << 63, (1 << 63) - 1, 0x7ff, ((1 << 64) - 1) ^ 0x7ff, 1 << 11, 1 << 12, 0xff, ((1 << 64) - 1) ^ 0xff, 0xffffffff, 1 << 32]

    def fbits(ty, v):
        return struct.unpack("<Q", struct.pack("<d", v))[0] if ty == "f64" else struct.unpack("<I", struct.pack("<f", v))[0]

    def run_with(words_override, params_override=None):
        args = []
        fi = 0
        for d in decoded:
            if d[1] == "words":
                ws = list(d[2])
                if words_override is not None:
                    ws = [words_override[0]] + ws[1:] if ws else list(words_override)
                args += ["w:%d" % w for w in ws]
            elif d[1] in ("f64", "f32") and params_override is not None:
                args.append("%s:%d" % (d[1], fbits(d[1], params_override[fi]))); fi += 1
            else: args.append("%s:%d" % (d[1], d[2]))
        cmd = [os.path.join(bindir, "distreplay"), rp["kind"], rp["id"], rp.get("float") or "-"] + args
        try:
            p = subprocess.run(cmd, capture_output=True, text=True, timeout=120)
        except subprocess.TimeoutExpired:
            return None, "native replay timed out"
        return p.returncode, (p.stdout + p.stderr).strip()

    rc, txt = run_with(None)
    if rc == 1: return True, txt
    if rc == 0 and any(d[1] == "words" for d in decoded):
        # the verifier's word may depend on a value the libm CONTRACT allows but the real libm does not produce:
        # keep the counterexample's parameters and try the boundary lattice of first words on the real code
        for w in LATTICE:
            rc2, txt2 = run_with([w])
            if rc2 == 1:
                return True, txt2 + "\n(parameters from the verifier's counterexample; first word replaced by the boundary word %d)" % w
    nfloat = sum(1 for d in decoded if d[1] in ("f64", "f32"))
    if rc == 0 and 1 <= nfloat <= 3:
        # ... or on contract-permitted libm values for the verifier's extreme parameters: keep the words, try a small
        # lattice of ordinary parameter values on the real code
        import itertools
        for combo in itertools.product([1.0, 2.0, -1.5, 0.25, 3.0], repeat=nfloat):
            rc3, txt3 = run_with(None, combo)
            if rc3 == 1:
                return True, txt3 + "\n(RNG words from the verifier's counterexample; parameters replaced by the ordinary values %s)" % (combo,)
    if rc == 0: return False, txt
    return None, txt


def run_property(pid, tier, repo, jobs=12):
    us = units_for(pid, tier)
    if not us: return None
    t0 = time.time()
    ov = os.path.join(common.scratch("kx_"), "ov")
    res = {"obligations": [], "bounded_units": [], "violation_lines": [], "known_lines": [], "infra": [], "samples": [],
           "functions_under_contract": [], "assumptions": list(KANI_ASSUMPTIONS), "checker_cmd": "", "back_end": {}}
    try:
        inserted = K.make_overlay(repo, ov, KU.contracts(), KU.CHILD_MODULES)
        with open(os.path.join(ov, "src/verif_kani/c04_gen.rs"), "w") as f: f.write(KU.gen_c04())
    except (K.OverlayError, OSError, subprocess.CalledProcessError) as e:
        res["infra"].append("overlay: %s" % e)
        return res

    def go(u):
        return u, K.run_harness(ov, u["harness"], solver=u.get("solver"), timeout=u.get("timeout", 600), extra=u.get("extra"), should_panic=u.get("should_panic", False))

    # the first run compiles the overlay; the others then hit a warm cache
    first = go(us[0])
    if first[1]["verdict"] is None and not first[1]["timed_out"]:
        res["infra"].append("kani build/run failed: " + (first[1].get("error_tail") or "")[-600:])
        # The verifier is undecided for the whole property (typically: a struct-literal child module no longer matches a
        # changed struct).  Undecided is not a verdict - but a concrete failing input of the REAL code found by a registered
        # bounded native search is a violation in its own right, replayable without the verifier.
        for u in us:
            if (u.get("replay") or {}).get("kind") != "search": continue
            confirmed, txt = native_replay(repo, u, [])
            res["bounded_units"].append({"id": u["id"] + "/native-search", "backend": "native bounded search (verifier undecided)", "bound": " ".join([u["replay"]["bin"]] + u["replay"]["args"]),
                                         "status": "refuted" if confirmed else ("discharged" if confirmed is False else "undecided")})
            if confirmed:
                path = common.write_replay(pid, u["id"] + "_native", {"property": pid, "kind": "native-bounded-search (verifier undecided: kani build failed)", "unit": u["id"],
                                                                      "failed_obligations": [{"description": u.get("contract")}], "native_replay_confirms": True, "native_replay_output": txt,
                                                                      "kani": True, "replay": u.get("replay"), "decoded": []})
                print("  native witness (verifier undecided): %s" % txt[:400].replace("\n", " | "))
                res["violation_lines"].append("VIOLATION property=%s replay=%s" % (pid, path))
        return res
    runs = [first]
    # memory-aware scheduling: big formulas (several GB of CBMC each; the OOM killer was observed at 12 in parallel)
    # run at most 3 at a time, everything else 12 at a time
    rest = us[1:]
    light = [u for u in rest if u.get("timeout", 600) < 1800]
    heavy = [u for u in rest if u.get("timeout", 600) >= 1800]
    with ThreadPoolExecutor(max_workers=jobs) as ex:
        runs += list(ex.map(go, light))
    with ThreadPoolExecutor(max_workers=3) as ex:
        runs += list(ex.map(go, heavy))
    res["checker_cmd"] = runs[0][1]["cmd"].replace(us[0]["harness"], "<harness>")
    known = common.load_known()
    solver_s = 0.0
    n_checks = 0
    for u, r in runs:
        solver_s += r.get("verification_time_s") or 0.0
        n_checks += r.get("counted", 0)
        rec = {"id": u["id"], "backend": "kani/cbmc", "unit": u["id"], "function": u.get("target"), "file": u.get("file"),
               "status": {"discharged": "discharged", "refuted": "refuted", "infra": "undecided"}[r["status"]],
               "cbmc_checks": r.get("counted"), "cbmc_checks_discharged": r.get("discharged"), "ignored_float_checks": r.get("ignored"),
               "covers_satisfied": r.get("covers_ok"), "seconds": r.get("verification_time_s"), "wall_s": r.get("wall_s"),
               "contract": u.get("contract"), "stubs_applied": len(r.get("stubs") or []), "solver": u.get("solver") or "cadical"}
        expects_refutation = u.get("expect") == "refuted"
        if u["kind"] == "bounded":
            rec["bound"] = u.get("bound")
            res["bounded_units"].append(rec)
        elif not expects_refutation:
            res["obligations"].append(rec)
        if u.get("stubs") and not r.get("stubs") and r["status"] != "infra":
            res["infra"].append("%s: libm stubs were requested but Kani reported none applied" % u["id"])
        if r["status"] == "infra":
            if expects_refutation: continue
            why = "timeout after %ss" % u.get("timeout", 600) if r["timed_out"] else ("vacuous: cover unsatisfiable " + json.dumps(r["covers_unsat"][:2]) if r["covers_unsat"] else "undetermined/failed to run: " + json.dumps(r["undetermined"][:2]) + (r.get("error_tail") or "")[-300:])
            res["infra"].append("%s: %s" % (u["id"], why))
            continue
        if expects_refutation:
            # a registered known finding: the harness pins the witness; it is expected to fail
            kf = next((k for k in known.get("known", []) if k.get("unit") == u["id"] and k.get("property") == pid), None)
            if r["status"] == "refuted" and kf:
                res["known_lines"].append("KNOWN-FINDING: property=%s %s" % (pid, kf["what"]))
            elif r["status"] == "refuted":
                res["infra"].append("%s: pinned finding harness fails but no known-findings entry lists it" % u["id"])
            else:
                res["known_lines"].append("NOTE: property=%s the pinned finding of %s no longer reproduces (harness %s now passes)" % (pid, u.get("target"), u["id"]))
            continue
        if r["status"] == "refuted":
            # second run with concrete playback to obtain the counterexample
            r2 = K.run_harness(ov, u["harness"], solver=u.get("solver"), timeout=max(1800, u.get("timeout", 600) * 4), extra=u.get("extra"), playback=True, should_panic=u.get("should_panic", False))
            decoded, confirmed, replay_txt = [], None, "no counterexample bytes obtained"
            # one counterexample per failing check: replay each until the unit's predicate is confirmed natively
            if (u.get("replay") or {}).get("kind") == "search":
                confirmed, replay_txt = native_replay(repo, u, [])
            for pb in (r2.get("fail_playbacks") or [])[:6]:
                if not u.get("schema") or (u.get("replay") or {}).get("kind") == "search": break
                d = decode(u["schema"], pb["vals"])
                cf, txt = native_replay(repo, u, d)
                if not decoded or cf:
                    decoded, confirmed, replay_txt = d, cf, txt
                    r2["concrete_vals"], r2["concrete_for"] = pb["vals"], pb["description"]
                if cf: break
            obl = "; ".join(c["description"] for c in r["refuted"][:3])
            rp = {"property": pid, "kind": "kani-counterexample", "kani": True, "unit": u["id"], "harness": u["harness"], "target": u.get("target"),
                  "failed_obligations": r["refuted"], "contract": u.get("contract"),
                  "counterexample_bytes": r2.get("concrete_vals"), "counterexample_for": r2.get("concrete_for"),
                  "decoded": [list(d) for d in decoded], "replay": u.get("replay"), "schema": u.get("schema"),
                  "native_replay_confirms": confirmed, "native_replay_output": replay_txt, "verifier_cmd": r["cmd"]}
            path = common.write_replay(pid, u["id"], rp)
            print("  failed obligation: %s  [%s]  %s" % (u["id"], u.get("target"), obl[:200]))
            if decoded: print("  counterexample: " + ", ".join("%s=%s" % (d[0], d[3] if len(d) > 3 else d[2]) for d in decoded))
            print("  native replay: %s %s" % ({True: "CONFIRMED", False: "not confirmed", None: "unavailable"}[confirmed], replay_txt[:300].replace("\n", " | ")))
            suffix = "" if confirmed else " no-failing-input-found"
            res["violation_lines"].append("VIOLATION property=%s replay=%s%s" % (pid, path, suffix))
    # concrete native units
    nat = [n for n in getattr(KU, "NATIVE_UNITS", []) if pid in n["property"]]
    if nat:
        bindir, err = replaybuild.build(repo, bins=["distreplay"])
        for n in nat:
            if n.get("expect") == "refuted":
                # pinned known finding reproduced natively (a bounded native search that must keep finding the witness)
                bd, err2 = replaybuild.build(repo, bins=[n["bin"]])
                kf = next((k for k in known.get("known", []) if k.get("unit") == n["id"] and k.get("property") == pid), None)
                if not bd or not kf:
                    res["infra"].append("pinned native finding %s: %s" % (n["id"], "replay crate does not build" if not bd else "no known-findings entry")); continue
                p = subprocess.run([os.path.join(bd, n["bin"])] + n["args"], capture_output=True, text=True, timeout=900)
                if p.returncode == 1: res["known_lines"].append("KNOWN-FINDING: property=%s %s" % (pid, kf["what"]))
                else: res["known_lines"].append("NOTE: property=%s the pinned finding %s no longer reproduces natively" % (pid, n["id"]))
                continue
            if not bindir:
                res["infra"].append("native unit %s: replay crate does not build: %s" % (n["id"], err[-300:])); continue
            p = subprocess.run([os.path.join(bindir, "distreplay")] + n["args"], capture_output=True, text=True, timeout=120)
            rec = {"id": n["id"], "backend": "native run (one concrete input)", "bound": n["what"], "status": "discharged" if p.returncode == 0 else "refuted", "output": (p.stdout + p.stderr).strip()[:300]}
            res["bounded_units"].append(rec)
            if p.returncode == 1:
                path = common.write_replay(pid, n["id"], {"property": pid, "kind": "native-concrete", "cmd": "distreplay " + " ".join(n["args"]), "output": rec["output"]})
                print("  failed native unit: %s  %s" % (n["id"], rec["output"].replace("\n", " | ")))
                res["violation_lines"].append("VIOLATION property=%s replay=%s" % (pid, path))
            elif p.returncode != 0:
                res["infra"].append("native unit %s: %s" % (n["id"], rec["output"]))
    for c in inserted:
        res["functions_under_contract"].append({"name": c["fn"], "file": c["file"], "line": c["repo_line"], "backend": "kani", "attributes": c["attributes"]})
    seen = set()
    for u, r in runs:
        if u.get("target") and (u["target"], u.get("file")) not in seen and not any(f["file"] == u.get("file") and f["name"] == u["target"].split("::")[-1] for f in res["functions_under_contract"]):
            seen.add((u["target"], u.get("file")))
            res["functions_under_contract"].append({"name": u["target"], "file": u.get("file"), "backend": "kani (harness-level contract)"})
    res["samples"] = [{"obligation": o["id"], "target": o["function"], "contract": o["contract"], "cbmc_checks": o["cbmc_checks"], "seconds": o["seconds"]} for o in res["obligations"][:8]]
    res["back_end"] = {"kani/cbmc(%s)" % "cadical+kissat": {"harnesses": len(runs), "cbmc_checks": n_checks, "solver_s": round(solver_s, 1)}}
    res["wall_s"] = time.time() - t0
    return res


def replay(rp, repo):
    """./check <id> --replay FILE for a Kani counterexample: re-evaluate the predicate natively on the real crate"""
    unit = {"replay": rp.get("replay")}
    decoded = [tuple(d) for d in rp.get("decoded", [])]
    print("unit %s target %s" % (rp.get("unit"), rp.get("target")))
    print("failed obligations: " + "; ".join(c["description"] for c in rp.get("failed_obligations", [])[:3]))
    if not decoded and (rp.get("replay") or {}).get("kind") != "search":
        print("no decoded counterexample in the replay file (no-failing-input-found)"); return 0
    confirmed, txt = native_replay(repo, unit, decoded)
    print(txt)
    print("replay %s" % ({True: "REPRODUCED", False: "not reproduced", None: "unavailable"}[confirmed]))
    return 1 if confirmed else 0

"""Registration of the claimed properties with the check driver."""


def register_all(chk):
    chk.contract_property(
        "C08", "WeightedAliasIndex encodes and samples exactly the given weights",
        "Unbounded deductive proof (Verus/Z3) over the text of weighted_alias.rs extracted from /repo on this run: `new` has its complete "
        "error/Ok contract and establishes table_ok (mass conservation per index); `weights()` returns the input exactly; `sample` returns "
        "pick(column, threshold) with non-zero weight; lemma_alias_exact counts exactly len*w[i] of the len*sum (column,threshold) pairs for "
        "index i. One instantiation per integer weight type. Float weights are not covered. "
        "The range contract the proof assumes for rand's Uniform<int>::new/sample is discharged by Kani against rand's real code for the 8/16-bit types.",
        verus=True, kani=True)
    chk.contract_property(
        "C09", "WeightedTreeIndex stays consistent with its weight list under any update history",
        "Unbounded deductive proof (Verus/Z3) over the text of weighted_tree.rs extracted from /repo on this run: the representation invariant "
        "wf is established by `new` and preserved by push/pop/update, each with a postcondition over the whole abstract view (the weight list); "
        "errors leave the structure unchanged and Overflow is exact; lemma_canonical shows equal views imply == structures, so any history ends "
        "in the state `new(list)` builds. Induction over histories is the invariant argument - no bound on history length or tree size. "
        "The contract the proof assumes for rand's Weight::checked_add_assign is discharged by Kani against rand's real impl (all pairs, every integer type).",
        verus=True, kani=True)
    chk.contract_property(
        "C10", "WeightedTreeIndex samples proportionally to the current weights",
        "Unbounded deductive proof (Verus/Z3): for every wf state (hence after any history, C09) try_sample returns InsufficientNonZero iff the "
        "total is 0, otherwise the index and residual are descend(s,0,t) for the single drawn target t, both internal assert!s hold, the "
        "returned weight is > 0; lemma_descend_bijection shows t -> (index,residual) is a bijection onto {(i,r): r < w_i}, i.e. exactly w_i of "
        "the `total` equally likely targets select i. Integer weight types only: for float weights two genuine defects (internal assertion "
        "failing although is_valid() is true) are pinned as known findings.",
        verus=True, kani=True)
    chk.contract_property(
        "C04", "Constructors accept exactly the documented parameter domain and never panic",
        "Every constructor carries a postcondition written from the documentation of its error variants (kx/spec.rs): Err iff a documented "
        "condition holds, the variant returned is one whose condition holds, Ok otherwise, accessors report the arguments; panic-freedom is part "
        "of every proof (unwrap/assert/overflow/bounds checks are obligations). Float constructors: Kani function contracts attached in place on an "
        "overlay copy of /repo and proved by proof_for_contract harnesses over ALL argument bit patterns (loop-free, complete). Tree/alias "
        "constructors: the Verus contracts of C08/C09. Regions where the documentation is silent or contradictory are marked unspecified in the spec.",
        verus=True, kani=True)
    chk.contract_property(
        "C03", "Every sample lies in the support; sampling never panics",
        "Per-unit support / no-panic postconditions of `sample` on the real code, proved by loop-free Kani harnesses over ALL parameter values "
        "in the envelope E and ALL RNG words (a superset of the single-adversarial-word quantifier): the six one-draw samplers (non-NaN, lower "
        "bound, exactly one word consumed), with libm replaced by assumed special-value/sign contracts. Weighted indices are covered by the Verus "
        "proofs of C08/C10 (index < len, weight non-zero, no panic). Known findings (Gumbel/Frechet at a uniform draw of exactly 1) are pinned by "
        "their own harnesses and excluded by an explicit assume. Samplers with rejection loops and product-bounded supports are NOT claimed (see not_reached in DESIGN.md).",
        verus=False, kani=True)
    chk.contract_property(
        "C06", "Ziggurat primitives: tables and algorithm define N(0,1) and Exp(1)",
        "(a) The table invariants are a closed finite obligation set, discharged exhaustively by CBMC on the concrete constants of "
        "ziggurat_tables.rs (all 4x257 entries and both tail constants): end points, X[1]==R, strict monotonicity, F[i]==pdf(X[i]) to 1e-14 "
        "(real libm exp), all 255 layer areas equal to X[0]*F[1] to 1e-8 relative, base strip + tail == that area. (b) Step contracts of "
        "utils::ziggurat / the tail closures on the real code for every RNG word (one iteration: bounded units, never counted as proved): value "
        "inside the selected layer, sign of u, tail beyond R. The sampled LAW (Kolmogorov distance, per-layer mass) is not decidable by contracts and is not claimed.",
        verus=False, kani=True)
    chk.contract_property(
        "C07", "Location and scale parameters act as exact affine maps on a fixed random stream",
        "Relational (two-run) contracts on the real sampler code, proved by loop-free Kani harnesses over all parameters in the envelope and all RNG "
        "words for the f32 instantiation (Kissat): Normal::from_zscore == mean + std_dev*z (negative std_dev included), LogNormal::from_zscore == "
        "exp(mu + sigma*z), and sample(loc, scale) == loc + scale * sample(0, 1) on the same word with the same number of words consumed for "
        "Gumbel, Cauchy, (Frechet for fixed shapes: bounded). The source is generic over the float type, so these are obligations on the text "
        "that f64 runs, but f64 itself is NOT proved (multiplier miters do not close: DESIGN.md 2.8). Exp/Weibull/Pareto/Gamma/InverseGaussian/"
        "Triangular/Pert/SkewNormal are not reached.",
        verus=False, kani=True)
    chk.contract_property(
        "C11", "Dirichlet: structure of the sampler (length, method choice, stick-breaking parameters)",
        "What contracts can pin down about Dirichlet is its structure; the law, the simplex numerics (sum to 1 within ulps, components <= 1) and "
        "the per-sample behaviour of sample_to_slice are NOT claimed. Bounded Kani units on the real code (child module of dirichlet.rs): "
        "Dirichlet::new on every 2-vector of f64 bit patterns (error variants as documented, Ok => sample_len()==2, Beta method iff every alpha <= 0.1, "
        "no panic); lengths 0/1 rejected; stick-breaking parameter structure for n = 3 (sampler j is Beta{alpha_j, right-to-left tail sum}); "
        "length mismatch in sample_to_slice panics. All bounded in the vector length: level `other`.",
        verus=False, kani=True, level="other")

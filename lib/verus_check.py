"""Verus half of the check driver: run the units a property depends on for every weight type of the tier,
turn Verus' per-function results into obligation records, and look for native witnesses of failures."""
import json
import os
import subprocess
import sys
from concurrent.futures import ThreadPoolExecutor

HERE = os.path.dirname(os.path.abspath(__file__))
sys.path.insert(0, os.path.join(os.path.dirname(HERE), "vx"))
sys.path.insert(0, HERE)
import common
import replaybuild
import run as vxrun
import units as U

# which Verus units a property uses, and which native search can exhibit a witness for it
PROP_UNITS = {
    "C08": {"units": ["alias"], "search": "aliassearch", "kinds": None},
    "C09": {"units": ["tree"], "search": "treesearch",
            "kinds": lambda k: not k.startswith("sample") and k != "panic-in-sample"},
    "C10": {"units": ["tree"], "search": "treesearch", "kinds": None},
    "C04": {"units": ["tree", "alias", "hypergeo"], "search": None, "kinds": None},
}

VERUS_ASSUMPTIONS = {
    "hypergeo": [
        "VF mode: every f64 operation (+ - * / comparisons, casts) is total and its RESULT is unspecified (havocked); f64::floor/ln/exp/sqrt/max/is_finite and the two float helper fns (fraction_of_products_of_factorials, ln_of_factorial) are assume_specification / external_body with no postcondition. What is proved is the integer content only; it holds for every value the float computations could take",
        "requires total_population_size >= 1: for N = 0 the (float-guarded) `n - 1` of the H2PE branch is closed by the native run Hypergeometric::new(0, 0, 0) in the replay crate",
        "extraction rules R13 (float unary minus routed through `fneg`), R2 (attributes dropped)",
    ],
    "tree": [
        "ASSUMED contract of rand's Weight::checked_add_assign for integer types (Ok iff no overflow, then exact sum, else unchanged) - discharged separately by the Kani unit weight_checked_add_assign (C09 thorough)",
        "ASSUMED contract of rand's integer random_range(lo..hi): lo <= t < hi; uniformity of that draw is assumed for the probability reading of C10",
        "Vec length <= usize::MAX/2 - 4 (allocation limit; needed for 2*index+2 not to overflow)",
        "64-bit target (global size_of usize == 8), used only by the two bit-vector helper lemmas",
        "derive(PartialEq/Clone/Default) on WeightedTreeIndex are structural (rule R2)",
        "extraction rules R3 (IntoIterator argument materialised as Vec), R4 (Option::inspect by its definition), R5 (closure pattern), R7 (?Sized dropped) preserve semantics; comments and attributes are dropped",
        "one integer instantiation at a time; user-defined Weight impls and float weights are not covered by the Verus units",
        "vstd specifications of Vec/slice/Option/Result/Range; Verus, Z3, rustc",
    ],
    "alias": [
        "ASSUMED contracts (prelude, rule R8/R10) of Iterator::all, Iterator::sum (exact, no overflow), Vec::into_boxed_slice, vec![x; n], Uniform::new (Ok iff lo < hi), zip/map/collect - cross-checked on the real code by the bounded native search `aliassearch`",
        "ASSUMED contract of rand's Uniform<int>::sample: lo <= r < hi; uniformity and independence of the two draws are assumed for the probability reading",
        "extraction rules R5, R6 (fn-local items hoisted), R7, R9 (iter_mut / enumerate loops as index loops) preserve semantics; comments and attributes are dropped",
        "`weights()` and `sample()` are verified for tables produced by `new` (ghost parameter w with table_ok(self, w)); tables produced by Deserialize are not covered",
        "one integer instantiation at a time; float weights are not covered by the Verus unit",
        "vstd specifications of Vec/Box<[T]>/Option/Result; Verus, Z3, rustc",
    ],
}


def contract_texts(unit_name, ty):
    """{fn key: contract text} taken from the spec template (annotation lines before the body)"""
    import extract
    out = {}
    for seg in extract.parse_template(U.UNITS[unit_name]["template"], U.subst_for(ty)):
        if seg[0] != "fn": continue
        toks, chunks = extract.split_fn_template(seg[2])
        body = next((i for i, t in enumerate(toks) if t.text == "{"), 0)
        txt = " ".join(t.strip() for p, k, t in chunks if k == "annot" and p <= body)
        out[seg[1]] = " ".join(txt.split())
    return out


def relevant(unit, pid, fn_name):
    lst = unit["property_of"].get(pid, [])
    return "*" in lst or fn_name in lst


def run_property(pid, tier, repo):
    cfg = PROP_UNITS[pid]
    jobs = []
    for un in cfg["units"]:
        unit = U.UNITS[un]
        types = unit["types"] if tier == "thorough" else unit["quick_types"]
        for ty in types: jobs.append((un, ty))
    wd = common.scratch("vx_")
    rl = 120 if tier == "thorough" else 40

    def go(job):
        un, ty = job
        return vxrun.run_unit(un, ty, repo, os.path.join(wd, un + "_" + ty), rlimit=rl, timeout=900)

    with ThreadPoolExecutor(max_workers=6) as ex:
        results = list(ex.map(go, jobs))

    obligations, failures, infra, fuc, cmds, samples = [], [], [], [], [], []
    smt_ms = 0
    for r in results:
        unit = U.UNITS[r["unit"]]
        tag = "%s<%s>" % (r["unit"], r["type"])
        cmds.append(r.get("checker_cmd", ""))
        smt_ms += r.get("smt_ms", 0)
        for msg in r["infra"]:
            infra.append("%s: %s" % (tag, msg))
        ex = r.get("extract") or {}
        exec_keys = {f["name"]: k for k, f in unit["functions"].items()}
        key_of_emitted = {}
        for k, meta in (ex.get("functions") or {}).items():
            key_of_emitted[unit["functions"][k]["name"]] = k
        contracts = contract_texts(r["unit"], r["type"]) if r["type"] == jobs[0][1] or True else {}
        for nm, f in r["functions"].items():
            short = nm.split("::")[-1]
            mode = f.get("mode")
            # exec functions: keep those the property depends on; spec/proof items support every property of the unit
            is_exec = mode == "exec"
            key = None
            if is_exec:
                cands = [k for k, fn in unit["functions"].items() if fn["name"] == short and (("Aliases" in nm) == (fn.get("self_type") == "Aliases"))]
                key = cands[0] if cands else short
                if not relevant(unit, pid, key): continue
            elif mode == "proof" and not (relevant(unit, pid, short) or short.startswith("lemma_")):
                continue
            ob = {"id": "%s::%s" % (tag, nm), "backend": "verus", "unit": r["unit"], "type": r["type"], "function": nm,
                  "mode": mode, "status": "discharged" if f.get("success") else "not-discharged", "smt_ms": f.get("ms")}
            if is_exec and key in (ex.get("functions") or {}):
                meta = ex["functions"][key]
                ob["repo"] = "%s:%d-%d" % (meta["file"], meta["repo_lines"][0], meta["repo_lines"][1])
                ob["text_in_sync_with_spec_template"] = meta.get("in_sync_with_template")
                ob["contract"] = contracts.get(key, "")[:600]
            obligations.append(ob)
        if r["status"] == "infra" and r["failures"]:
            # the emitted text did not even parse / type-check / keep its vacuity guards: nothing reported for this run is a
            # verdict (typically a change of the statement structure that the spec template has to be ported to)
            infra.append("%s: %d proof failure(s) reported next to an infrastructure error are NOT counted as violations" % (tag, len(r["failures"])))
        for fl in (r["failures"] if r["status"] != "infra" else []):
            fn = fl.get("function")
            is_lemma = bool(fn) and fn not in [f["name"] for f in unit["functions"].values()] and not (fn or "").startswith("reach_")
            key = None
            for k, meta in (ex.get("functions") or {}).items():
                lo, hi = meta.get("emitted_lines", [0, -1])
                if lo <= fl["emitted_line"] <= hi: key = k
            if key is None and is_lemma:
                # a lemma of the spec template failing: the template does not depend on /repo -> solver instability, not a verdict
                infra.append("%s: lemma %s not proved (%s)" % (tag, fn, fl["message"]))
                continue
            if key is not None and not relevant(unit, pid, key):
                continue
            failures.append({"unit": r["unit"], "type": r["type"], "function": key or fn, "obligation": fl["message"],
                             "clause": fl["emitted_text"][:300], "labels": fl.get("labels"),
                             "repo_file": fl["repo_file"], "repo_line": fl["repo_line"],
                             "changed_tokens": ((ex.get("functions") or {}).get(key) or {}).get("token_changes", [])[:6]})
        if r["type"] == jobs[0][1]:
            for k, meta in (ex.get("functions") or {}).items():
                if relevant(unit, pid, k):
                    fuc.append({"name": unit["functions"][k]["name"] + (" (Aliases)" if unit["functions"][k].get("self_type") == "Aliases" else ""),
                                "file": meta["file"], "lines": meta["repo_lines"], "backend": "verus", "unit": r["unit"],
                                "in_sync_with_spec_template": meta.get("in_sync_with_template")})
            for rr in (ex.get("rules_applied") or []):
                samples.append({"extraction_rule": rr["rule"], "fn": rr["fn"], "repo_line": rr["repo_line"], "from": rr["from"][:160], "to": rr["to"][:200], "drops": rr["drops"]})
    return {"results": results, "obligations": obligations, "failures": failures, "infra": infra,
            "functions_under_contract": fuc, "checker_cmds": sorted(set(cmds)), "rule_samples": samples,
            "smt_ms": smt_ms, "assumptions": sum((VERUS_ASSUMPTIONS[u] for u in cfg["units"]), []),
            "jobs": ["%s<%s>" % j for j in jobs]}


def native_search(pid, tier, repo, types=("u8", "i8", "u64", "i32"), failing_units=None):
    """bounded search on the real code for a concrete witness; returns (witnesses, summaries, error)"""
    cfg = dict(PROP_UNITS[pid])
    if not cfg["search"] and failing_units:
        # C04: pick the search that exercises the failing data structure
        cfg["search"] = "treesearch" if "tree" in failing_units else ("aliassearch" if "alias" in failing_units else None)
    if not cfg["search"]: return [], [], None
    bindir, err = replaybuild.build(repo, bins=[cfg["search"]])
    if not bindir: return [], [], "replay crate does not build: " + err[-500:]
    arg = {"treesearch": "4" if tier == "thorough" else "3", "aliassearch": "5" if tier == "thorough" else "4"}[cfg["search"]]
    wit, summ = [], []
    for ty in types:
        try:
            p = subprocess.run([os.path.join(bindir, cfg["search"]), ty, arg, "8"], capture_output=True, text=True, timeout=900)
        except subprocess.TimeoutExpired:
            summ.append({"type": ty, "timeout": True}); continue
        for ln in p.stdout.splitlines():
            try: d = json.loads(ln)
            except ValueError: continue
            if d.get("summary"): d["cmd"] = "%s %s %s 8" % (cfg["search"], ty, arg); summ.append(d)
            elif cfg["kinds"] is None or cfg["kinds"](d.get("kind", "")):
                d["cmd"] = "%s %s %s 8" % (cfg["search"], ty, arg)
                wit.append(d)
    return wit, summ, None

use rand_distr::Hypergeometric;
fn main() {
    for (n, k, s) in [(u64::MAX, 1u64, 1u64), (u64::MAX - 1, 5, 3), (u64::MAX - 10, (u64::MAX - 10) / 2 + 1, u64::MAX - 11)] {
        let r = std::panic::catch_unwind(|| Hypergeometric::new(n, k, s).map(|_| ()));
        println!("Hypergeometric::new({n}, {k}, {s}) -> {:?}", r.map_err(|_| "PANIC"));
    }
}

        let alpha = [0.05, 0.025, 0.075, 0.05];
        let n = 150000;
        let rtol = 1e-3;
        let seed = 1317624576693539401;
        check_dirichlet_means(alpha, n, rtol, seed);
    }
}

#[cfg(kani)]
mod verif {
    use super::*;

    /// stick-breaking structure: sampler j is Beta with parameter set {alpha_j, alpha_{j+1} + ... + alpha_{n-1}}
    /// (right-to-left float sum), for n = 3
    #[kani::proof]
    #[kani::unwind(5)]
    fn from_beta_structure_len3() {
        let a: [f64; 3] = kani::any();
        kani::assume(a[0] >= 1e-3 && a[0] <= 0.1 && a[1] >= 1e-3 && a[1] <= 0.1 && a[2] >= 1e-3 && a[2] <= 0.1);
        let d = DirichletFromBeta::new(&a).unwrap();
        assert!(d.samplers.len() == 2);
        let t1 = a[2];
        let t0 = a[2] + a[1];
        let s0 = &d.samplers[0];
        let s1 = &d.samplers[1];
        let same = |x: f64, y: f64, p: f64, q: f64| (x.to_bits() == p.to_bits() && y.to_bits() == q.to_bits()) || (x.to_bits() == q.to_bits() && y.to_bits() == p.to_bits());
        assert!(same(s0.a, s0.b, a[0], t0));
        assert!(same(s1.a, s1.b, a[1], t1));
    }
}

use rand_distr::weighted::WeightedTreeIndex;
struct W(u32);
impl rand::TryRng for W {
    type Error = core::convert::Infallible;
    fn try_next_u32(&mut self) -> Result<u32, Self::Error> { Ok(self.0) }
    fn try_next_u64(&mut self) -> Result<u64, Self::Error> { Ok(self.0 as u64 | ((self.0 as u64) << 32)) }
    fn try_fill_bytes(&mut self, _: &mut [u8]) -> Result<(), Self::Error> { unimplemented!() }
}
fn main() {
    let w0 = f32::from_bits(u32::from_le_bytes([195, 1, 0, 0]));
    let w1 = f32::from_bits(u32::from_le_bytes([0, 0, 0, 128]));
    let t = WeightedTreeIndex::<f32>::new([w0, w1]).unwrap();
    println!("valid={} w0={:e} w1={:?}", t.is_valid(), w0, w1);
    let mut rng = W(4293766655);
    let r = std::panic::catch_unwind(move || t.try_sample(&mut rng));
    println!("{:?}", r.map_err(|_| "PANIC"));
}

// Design-phase probe harnesses (appended to a scratch copy of /repo/src/lib.rs).
// Not part of the machinery; kept as the record behind DESIGN.md section 2.
#[cfg(kani)]
mod verif_kani {
    use crate::*;
    use rand::TryRng;

    pub struct AnyRng;
    impl TryRng for AnyRng {
        type Error = rand::rand_core::Infallible;
        fn try_next_u32(&mut self) -> Result<u32, Self::Error> { Ok(kani::any()) }
        fn try_next_u64(&mut self) -> Result<u64, Self::Error> { Ok(kani::any()) }
        fn try_fill_bytes(&mut self, _: &mut [u8]) -> Result<(), Self::Error> { unimplemented!() }
    }

    /// assumed contract for natural log (IEEE special cases + sign/range only)
    pub fn ln_contract(x: f64) -> f64 {
        if x.is_nan() || x < 0.0 { return f64::NAN; }
        if x == 0.0 { return f64::NEG_INFINITY; }
        if x == f64::INFINITY { return f64::INFINITY; }
        if x == 1.0 { return 0.0; }
        let r: f64 = kani::any();
        kani::assume(r.is_finite());
        if x < 1.0 { kani::assume(r < 0.0 && r >= -745.2); } else { kani::assume(r > 0.0 && r <= 709.8); }
        r
    }
    pub fn sqrt_exact(x: f64) -> f64 { core::intrinsics::sqrtf64(x) }

    #[kani::proof]
    #[kani::stub(libm::log, ln_contract)]
    #[kani::stub(libm::sqrt, sqrt_exact)]
    fn lognormal_from_mean_cv() {
        let m: f64 = kani::any();
        let cv: f64 = kani::any();
        let r = LogNormal::from_mean_cv(m, cv);
        if cv != 0.0 { assert_eq!(r.is_err(), !(m > 0.0) || !(cv >= 0.0) ); }
    }

    #[kani::proof_for_contract(Cauchy::<f64>::new)]
    fn cauchy_new_contract() {
        let _ = Cauchy::<f64>::new(kani::any(), kani::any());
    }

    #[kani::proof]
    #[kani::unwind(4)]
    fn tree_f32_sample_no_panic() {
        use crate::weighted::WeightedTreeIndex;
        let w0: f32 = kani::any();
        let w1: f32 = kani::any();
        kani::assume(w0 >= 0.0 && w0 <= 1e6 && w1 >= 0.0 && w1 <= 1e6);
        let t = WeightedTreeIndex::<f32>::new([w0, w1]).unwrap();
        if t.is_valid() {
            let mut rng = AnyRng;
            let i = t.try_sample(&mut rng).unwrap();
            assert!(i < 2);
        }
    }

    #[kani::proof]
    fn normal_zscore() {
        let m: f64 = kani::any();
        let sd: f64 = kani::any();
        let z: f64 = kani::any();
        if let Ok(n) = Normal::new(m, sd) {
            let a = n.from_zscore(z);
            let b = m + sd * z;
            assert!(a.to_bits() == b.to_bits() || (a.is_nan() && b.is_nan()));
        }
    }

    #[kani::proof]
    #[kani::stub(libm::powf, powf_memo)]
    fn pareto_scale_f32() {
        let sc: f32 = kani::any();
        let sh: f32 = kani::any();
        let w: u32 = kani::any();
        kani::assume(sc > 1e-10 && sc < 1e10 && sh > 1e-3 && sh < 1e3);
        let a = Pareto::new(sc, sh).unwrap();
        let b = Pareto::new(1.0f32, sh).unwrap();
        let mut r1 = OneWord(w as u64, 0);
        let mut r2 = OneWord(w as u64, 0);
        let xa: f32 = a.sample(&mut r1);
        let xb: f32 = b.sample(&mut r2);
        assert!(xa.to_bits() == (sc * xb).to_bits() || xa.is_nan());
        assert!(r1.1 == r2.1);
    }

    pub struct OneWord(u64, u32);
    impl TryRng for OneWord {
        type Error = rand::rand_core::Infallible;
        fn try_next_u32(&mut self) -> Result<u32, Self::Error> { self.1 += 1; Ok(self.0 as u32) }
        fn try_next_u64(&mut self) -> Result<u64, Self::Error> { self.1 += 1; Ok(self.0) }
        fn try_fill_bytes(&mut self, _: &mut [u8]) -> Result<(), Self::Error> { unimplemented!() }
    }

    use core::sync::atomic::{AtomicU32, AtomicBool, Ordering::Relaxed};
    static MX: AtomicU32 = AtomicU32::new(0);
    static MY: AtomicU32 = AtomicU32::new(0);
    static MR: AtomicU32 = AtomicU32::new(0);
    static MV: AtomicBool = AtomicBool::new(false);
    pub fn powf_memo(x: f32, y: f32) -> f32 {
        if MV.load(Relaxed) && MX.load(Relaxed) == x.to_bits() && MY.load(Relaxed) == y.to_bits() { return f32::from_bits(MR.load(Relaxed)); }
        let r: f32 = kani::any();
        MX.store(x.to_bits(), Relaxed); MY.store(y.to_bits(), Relaxed); MR.store(r.to_bits(), Relaxed); MV.store(true, Relaxed);
        r
    }

    #[kani::proof]
    #[kani::unwind(2)]
    fn unit_disc_f32() {
        let mut rng = AnyRng;
        let p: [f32; 2] = UnitDisc.sample(&mut rng);
        assert!(p[0] * p[0] + p[1] * p[1] <= 1.0);
        assert!(p[0] >= -1.0 && p[0] < 1.0 && p[1] >= -1.0 && p[1] < 1.0);
    }

    #[kani::proof]
    #[kani::unwind(2)]
    fn unit_circle_f32() {
        let mut rng = AnyRng;
        let p: [f32; 2] = UnitCircle.sample(&mut rng);
        let n2 = p[0] * p[0] + p[1] * p[1];
        assert!(n2 >= 1.0 - 1e-5 && n2 <= 1.0 + 1e-5);
    }

    #[kani::proof]
    #[kani::stub(libm::log, ln_contract)]
    fn gumbel_support() {
        let loc: f64 = kani::any();
        let scale: f64 = kani::any();
        kani::assume(loc.abs() <= 1e100 && scale <= 1e100 && scale >= 1e-100);
        if let Ok(t) = Gumbel::new(loc, scale) {
            let mut rng = AnyRng;
            let x: f64 = t.sample(&mut rng);
            assert!(x.is_finite());
        }
    }
}

use vstd::prelude::*;
verus! {

pub enum Error { InvalidWeight, Overflow, InsufficientNonZero }
type W = u64;

pub trait Weight: Sized {
    const ZERO: Self;
    spec fn add_ok(self, v: Self) -> bool;
    spec fn add_val(self, v: Self) -> Self;
    fn checked_add_assign(&mut self, v: &Self) -> (r: Result<(), ()>)
        ensures r.is_ok() <==> old(self).add_ok(*v),
                r.is_ok() ==> *final(self) == old(self).add_val(*v),
                r.is_err() ==> *final(self) == *old(self);
}
impl Weight for u64 {
    const ZERO: Self = 0;
    open spec fn add_ok(self, v: Self) -> bool { self + v <= u64::MAX }
    open spec fn add_val(self, v: Self) -> Self { (self + v) as u64 }
    #[verifier::external_body]
    fn checked_add_assign(&mut self, v: &Self) -> (r: Result<(), ()>)
    { match self.checked_add(*v) { Some(sum) => { *self = sum; Ok(()) } None => Err(()) } }
}

pub open spec fn sub_at(s: Seq<W>, i: int) -> int { if 0 <= i < s.len() { s[i] as int } else { 0 } }
pub open spec fn child_sum(s: Seq<W>, i: int) -> int { sub_at(s, 2*i+1) + sub_at(s, 2*i+2) }
pub open spec fn wf(s: Seq<W>) -> bool { forall|i: int| 0 <= i < s.len() ==> #[trigger] s[i] as int >= child_sum(s, i) }
pub open spec fn weight(s: Seq<W>, i: int) -> int { s[i] as int - child_sum(s, i) }
pub open spec fn view(s: Seq<W>) -> Seq<int> { Seq::new(s.len(), |i: int| weight(s, i)) }

// is j an ancestor-or-self chain position: anc(i, j) means j is on the path from i to root
pub open spec fn on_path(i: int, j: int) -> bool decreases i when i >= 0 {
    if i == j { true } else if i <= 0 { false } else { on_path((i - 1) / 2, j) }
}

pub struct WeightedTreeIndex { pub subtotals: Vec<W> }

impl WeightedTreeIndex {
    pub fn len(&self) -> (r: usize) ensures r == self.subtotals.len() { self.subtotals.len() }

    fn subtotal(&self, index: usize) -> (r: W)
        ensures r as int == sub_at(self.subtotals@, index as int)
    {
        if index < self.subtotals.len() {
            self.subtotals[index].clone()
        } else {
            W::ZERO
        }
    }

    pub fn get(&self, index: usize) -> (r: W)
        requires wf(self.subtotals@), index < self.subtotals.len(), self.subtotals.len() <= usize::MAX / 2 - 2,
        ensures r as int == weight(self.subtotals@, index as int)
    {
        let left_index = 2 * index + 1;
        let right_index = 2 * index + 2;
        let mut w = self.subtotals[index].clone();
        w -= self.subtotal(left_index);
        w -= self.subtotal(right_index);
        w
    }

    pub fn push(&mut self, weight: W) -> (res: Result<(), Error>)
        requires wf(old(self).subtotals@), old(self).subtotals.len() < usize::MAX / 2 - 4,
        ensures
            res.is_err() ==> final(self).subtotals@ == old(self).subtotals@,
            res.is_ok() ==> wf(final(self).subtotals@) && view(final(self).subtotals@) == view(old(self).subtotals@).push(weight as int),
            res.is_err() <==> (old(self).subtotals.len() > 0 && old(self).subtotals@[0] + weight > u64::MAX),
    {
        if !(weight >= W::ZERO) {
            return Err(Error::InvalidWeight);
        }
        if let Some(total) = self.subtotals.first() {
            let mut total = total.clone();
            if total.checked_add_assign(&weight).is_err() {
                return Err(Error::Overflow);
            }
        }
        let mut index = self.len();
        self.subtotals.push(weight.clone());
        let ghost s0 = old(self).subtotals@;
        let ghost n = s0.len() as int;
        while index != 0
            invariant
                self.subtotals.len() == n + 1,
                0 <= index <= n,
                wf(s0),
                n > 0 ==> s0[0] + weight <= u64::MAX,
                // nodes on the path from n down to (excluding) index have been bumped; others unchanged
                forall|j: int| 0 <= j < n ==> self.subtotals@[j] as int == s0[j] as int + (if on_path(n, j) && !on_path(index as int, j) { weight as int } else { 0 }),
                self.subtotals@[n] == weight,
                on_path(n, index as int),
            decreases index,
        {
            let ghost prev = index as int;
            index = (index - 1) / 2;
            assert(0 <= index < n);
            proof {
                lemma_le_root(s0, index as int);
                lemma_path_step(n, prev, index as int);
            }
            assert(!on_path(prev, index as int)) by { lemma_path_below(prev, index as int); }
            assert(self.subtotals@[index as int] as int == s0[index as int] as int);
            self.subtotals[index].checked_add_assign(&weight).unwrap();
            assert forall|j: int| 0 <= j < n implies self.subtotals@[j] as int == s0[j] as int + (if on_path(n, j) && !on_path(index as int, j) { weight as int } else { 0int }) by {
                lemma_path_split(prev, index as int, j);
            }
        }
        proof { admit(); }
        Ok(())
    }
}

// on_path(prev, j) <==> j == prev || on_path(parent(prev), j)
pub proof fn lemma_path_split(prev: int, par: int, j: int)
    requires prev > 0, par == (prev - 1) / 2
    ensures on_path(prev, j) == (j == prev || on_path(par, j))
{ }
pub proof fn lemma_path_below(i: int, j: int)
    requires 0 <= j < i
    ensures !on_path(j, i)
    decreases j
{ if j > 0 { lemma_path_below(i, (j - 1) / 2); } }
pub proof fn lemma_path_step(n: int, prev: int, par: int)
    requires prev > 0, par == (prev - 1) / 2, on_path(n, prev)
    ensures on_path(n, par)
    decreases n
{
    if n != prev && n > 0 { lemma_path_step((n - 1) / 2, prev, par); }
}
pub proof fn lemma_le_root(s: Seq<W>, i: int)
    requires wf(s), 0 <= i < s.len()
    ensures s[i] <= s[0]
    decreases i
{
    if i > 0 {
        let p = (i - 1) / 2;
        lemma_le_root(s, p);
        assert(s[p] as int >= child_sum(s, p));
        assert(2*p+1 == i || 2*p+2 == i);
    }
}

} // verus!
fn main() {}

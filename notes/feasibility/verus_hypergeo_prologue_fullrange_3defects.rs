use vstd::prelude::*;
use vstd::std_specs::ops::*;
verus! {
#[verifier::external_body]
pub broadcast proof fn f64_add_total(a: f64, b: f64) ensures #[trigger] a.add_req(b) {}
#[verifier::external_body]
pub broadcast proof fn f64_mul_total(a: f64, b: f64) ensures #[trigger] a.mul_req(b) {}
#[verifier::external_body]
pub broadcast proof fn f64_div_total(a: f64, b: f64) ensures #[trigger] a.div_req(b) {}
#[verifier::external_body]
pub broadcast proof fn f64_sub_total(a: f64, b: f64) ensures #[trigger] a.sub_req(b) {}
#[verifier::external_body]
fn floor(x: f64) -> f64 { x.floor() }
#[verifier::external_body]
fn fmax(a: f64, b: f64) -> f64 { f64::max(a, b) }

pub enum Error { PopulationTooLarge, ProbabilityTooLarge, SampleSizeTooLarge }

pub struct Hyper { pub n1: u64, pub n2: u64, pub k: u64, pub offset_x: i64, pub sign_x: i64 }

// text of Hypergeometric::new up to the method split (src/hypergeometric.rs:152-207), floats havocked
pub fn new_prologue(total_population_size: u64, population_with_feature: u64, sample_size: u64) -> (res: Result<Hyper, Error>)
    ensures
        res is Err <==> (population_with_feature > total_population_size || sample_size > total_population_size),
        res matches Ok(h) ==> ({
            let nn = total_population_size as int; let kk = population_with_feature as int; let s = sample_size as int;
            let lo = if s + kk - nn > 0 { s + kk - nn } else { 0 };
            let hi = if s < kk { s } else { kk };
            let ilo = if h.k as int - h.n2 as int > 0 { h.k as int - h.n2 as int } else { 0 };
            let ihi = if (h.n1 as int) < (h.k as int) { h.n1 as int } else { h.k as int };
            &&& (h.sign_x == 1 || h.sign_x == -1)
            // the affine map x |-> offset_x + sign_x * x maps the internal support onto the documented support
            &&& (h.sign_x == 1 ==> h.offset_x as int + ilo == lo && h.offset_x as int + ihi == hi)
            &&& (h.sign_x == -1 ==> h.offset_x as int - ihi == lo && h.offset_x as int - ilo == hi)
        }),
{
    broadcast use f64_add_total, f64_mul_total, f64_div_total, f64_sub_total;
    if population_with_feature > total_population_size {
        return Err(Error::ProbabilityTooLarge);
    }

    if sample_size > total_population_size {
        return Err(Error::SampleSizeTooLarge);
    }

    // set-up constants as function of original parameters
    let n = total_population_size;
    let (mut sign_x, mut offset_x) = (1i64, 0i64);
    let (n1, n2) = {
        // switch around success and failure states if necessary to ensure n1 <= n2
        let population_without_feature = n - population_with_feature;
        if population_with_feature > population_without_feature {
            sign_x = -1;
            offset_x = sample_size as i64;
            (population_without_feature, population_with_feature)
        } else {
            (population_with_feature, population_without_feature)
        }
    };
    let k = if sample_size <= n / 2 {
        sample_size
    } else {
        offset_x += n1 as i64 * sign_x;
        sign_x *= -1;
        n - sample_size
    };
    let m = floor((k + 1) as f64 * (n1 + 1) as f64 / (n + 2) as f64);
    let _t = m - fmax(0.0, k as f64 - n2 as f64);
    Ok(Hyper { n1, n2, k, offset_x, sign_x })
}
} // verus!
fn main() {}

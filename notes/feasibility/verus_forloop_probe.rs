use vstd::prelude::*;
verus! {
type W = u64;
pub fn cp(weights: &[W]) -> (r: Vec<W>)
    ensures r@ == weights@
{
    let subtotals: Vec<W> = weights.into_iter().map(|x| x.clone()).collect();
    subtotals
}

pub fn lp(v: &Vec<W>) -> (r: bool)
    ensures r == (forall|i: int| 0 <= i < v.len() ==> v[i] >= 5)
{
    for weight in it: v.iter()
        invariant forall|i: int| 0 <= i < it.index@ ==> v[i] >= 5,
    {
        if !(*weight >= 5) {
            return false;
        }
    }
    true
}

pub fn rv(n: usize) -> (r: usize)
{
    let mut c: usize = 0;
    for i in it: (1..n).rev()
        invariant c <= n,
    {
        if c < i { c = c + 1; }
    }
    c
}
} // verus!
fn main() {}


use crate::*;
use rand::TryRng;

pub struct AnyRng;
impl TryRng for AnyRng {
    type Error = rand::rand_core::Infallible;
    fn try_next_u32(&mut self) -> Result<u32, Self::Error> { Ok(kani::any()) }
    fn try_next_u64(&mut self) -> Result<u64, Self::Error> { Ok(kani::any()) }
    fn try_fill_bytes(&mut self, _: &mut [u8]) -> Result<(), Self::Error> { unimplemented!() }
}

pub fn sqrt_exact(x: f64) -> f64 { core::intrinsics::sqrtf64(x) }
pub fn floor_exact(x: f64) -> f64 { core::intrinsics::floorf64(x) }
pub fn ln_contract(x: f64) -> f64 {
    if x.is_nan() || x < 0.0 { return f64::NAN; }
    if x == 0.0 { return f64::NEG_INFINITY; }
    if x == f64::INFINITY { return f64::INFINITY; }
    if x == 1.0 { return 0.0; }
    let r: f64 = kani::any();
    kani::assume(r.is_finite());
    if x < 1.0 { kani::assume(r < 0.0 && r >= -745.2); } else { kani::assume(r > 0.0 && r <= 709.8); }
    r
}
pub fn exp_contract(x: f64) -> f64 {
    if x.is_nan() { return f64::NAN; }
    if x == f64::NEG_INFINITY { return 0.0; }
    if x == f64::INFINITY { return f64::INFINITY; }
    if x == 0.0 { return 1.0; }
    let r: f64 = kani::any();
    kani::assume(r >= 0.0);
    if x > 0.0 { kani::assume(r >= 1.0); } else { kani::assume(r <= 1.0); }
    if x <= 709.78 { kani::assume(r.is_finite()); }
    r
}
/// pow contract restricted to what the verified units need (x >= 0 finite or +inf); full IEEE table in the real machinery
pub fn pow_contract(x: f64, y: f64) -> f64 {
    if y == 0.0 { return 1.0; }
    if x == 1.0 { return 1.0; }
    if x.is_nan() || y.is_nan() { return f64::NAN; }
    if x < 0.0 && x.is_finite() && y.is_finite() && floor_exact(y) != y { return f64::NAN; }
    if x == 0.0 {
        // +-0 base
        let odd = y.is_finite() && floor_exact(y) == y && floor_exact(y / 2.0) * 2.0 != y && y.abs() < 9007199254740992.0;
        if y < 0.0 { return if odd && x.is_sign_negative() { f64::NEG_INFINITY } else { f64::INFINITY }; }
        return if odd && x.is_sign_negative() { -0.0 } else { 0.0 };
    }
    let r: f64 = kani::any();
    kani::assume(!r.is_nan());
    if x > 0.0 {
        kani::assume(r >= 0.0);
        if (x > 1.0 && y > 0.0) || (x < 1.0 && y < 0.0) { kani::assume(r >= 1.0); } else { kani::assume(r <= 1.0); }
    }
    r
}

#[kani::proof]
#[kani::stub(libm::pow, pow_contract)]
#[kani::stub(libm::sqrt, sqrt_exact)]
#[kani::stub(libm::floor, floor_exact)]
fn binomial_new() {
    let n: u64 = kani::any();
    let p: f64 = kani::any();
    let r = Binomial::new(n, p);
    assert_eq!(r.is_err(), !(p >= 0.0) || !(p <= 1.0));
    if let Err(e) = r {
        if !(p >= 0.0) { assert!(e == BinomialError::ProbabilityTooSmall); } else { assert!(e == BinomialError::ProbabilityTooLarge); }
    }
}

#[kani::proof]
#[kani::stub(libm::pow, pow_contract)]
#[kani::stub(libm::log, ln_contract)]
fn zipf_new() {
    let n: f64 = kani::any();
    let s: f64 = kani::any();
    let r = Zipf::new(n, s);
    let e1 = !(s >= 0.0);
    let e2 = !(n >= 1.0);
    let e3 = n.is_infinite() && s <= 1.0;
    assert_eq!(r.is_err(), e1 || e2 || e3);
}

#[kani::proof]
#[kani::stub(libm::exp, exp_contract)]
#[kani::stub(libm::sqrt, sqrt_exact)]
#[kani::stub(libm::floor, floor_exact)]
fn poisson_new() {
    let l: f64 = kani::any();
    let r = Poisson::new(l);
    let nonfinite = !l.is_finite();
    let small = !(l > 0.0);
    let large = l > Poisson::<f64>::MAX_LAMBDA;
    assert_eq!(r.is_err(), nonfinite || small || large);
    if let Err(e) = r {
        if nonfinite { assert!(e == PoissonError::NonFinite); }
        else if small { assert!(e == PoissonError::ShapeTooSmall); }
        else { assert!(e == PoissonError::ShapeTooLarge); }
    }
}

#[kani::proof]
#[kani::stub(libm::pow, pow_contract)]
#[kani::stub(libm::log, ln_contract)]
fn frechet_support() {
    let loc: f64 = kani::any();
    let scale: f64 = kani::any();
    let shape: f64 = kani::any();
    kani::assume(loc.abs() <= 1e100 && scale <= 1e100 && scale >= 1e-100 && shape >= 0.1 && shape <= 1e3);
    let d = Frechet::new(loc, scale, shape).unwrap();
    let mut rng = AnyRng;
    let x: f64 = d.sample(&mut rng);
    assert!(!x.is_nan());
    assert!(x >= loc);
}

#[kani::proof]
#[kani::stub(libm::sqrt, sqrt_exact)]
fn beta_new() {
    let a: f64 = kani::any();
    let b: f64 = kani::any();
    let r = Beta::new(a, b);
    assert_eq!(r.is_err(), !(a > 0.0) || !(b > 0.0));
    if let Err(e) = r { if !(a > 0.0) { assert!(e == BetaError::AlphaTooSmall); } else { assert!(e == BetaError::BetaTooSmall); } }
}

#[kani::proof]
#[kani::unwind(5)]
#[kani::stub(libm::sqrt, sqrt_exact)]
fn dirichlet_new_len3() {
    use crate::multi::{Dirichlet, MultiDistribution};
    let a: [f64; 3] = kani::any();
    let r = Dirichlet::new(&a);
    let bad_small = !(a[0] > 0.0) || !(a[1] > 0.0) || !(a[2] > 0.0);
    let ok_in_e = a[0] >= 1e-3 && a[0] <= 1e4 && a[1] >= 1e-3 && a[1] <= 1e4 && a[2] >= 1e-3 && a[2] <= 1e4;
    if bad_small { assert!(r.is_err()); }
    if ok_in_e {
        let d = r.unwrap();
        assert!(d.sample_len() == 3);
    }
}

#[kani::proof]
#[kani::unwind(4)]
fn tree_f64_history2() {
    use crate::weighted::WeightedTreeIndex;
    let w: [f64; 2] = kani::any();
    kani::assume(w[0] >= 0.0 && w[0] <= 1e300 && w[1] >= 0.0 && w[1] <= 1e300);
    let mut t = WeightedTreeIndex::<f64>::new(w).unwrap();
    let x: f64 = kani::any();
    let before = t.clone();
    match t.push(x) {
        Ok(()) => { assert!(x >= 0.0); assert!(t.len() == 3); }
        Err(e) => { assert!(!(x >= 0.0)); assert!(e == crate::weighted::Error::InvalidWeight); assert!(t.len() == 2); assert!(t.get(0).to_bits() == before.get(0).to_bits()); }
    }
    let y: f64 = kani::any();
    let i: usize = kani::any();
    kani::assume(i < t.len());
    let r = t.update(i, y);
    if !(y >= 0.0) { assert!(r.is_err()); }
    let p = t.pop();
    assert!(p.is_some());
}

pub struct WordsRng { pub w: [u64; 4], pub i: usize }
impl TryRng for WordsRng {
    type Error = rand::rand_core::Infallible;
    fn try_next_u32(&mut self) -> Result<u32, Self::Error> { let v = self.w[self.i & 3]; self.i += 1; Ok(v as u32) }
    fn try_next_u64(&mut self) -> Result<u64, Self::Error> { let v = self.w[self.i & 3]; self.i += 1; Ok(v) }
    fn try_fill_bytes(&mut self, _: &mut [u8]) -> Result<(), Self::Error> { unimplemented!() }
}

/// one ziggurat step of StandardNormal (first iteration; tail loop first iteration)
#[kani::proof]
#[kani::unwind(1)]
#[kani::stub(libm::exp, exp_contract)]
#[kani::stub(libm::log, ln_contract)]
fn normal_step_contract() {
    use crate::ziggurat_tables::*;
    let w: [u64; 4] = kani::any();
    let mut rng = WordsRng { w, i: 0 };
    let x: f64 = StandardNormal.sample(&mut rng);
    let i = (w[0] & 0xff) as usize;
    let neg = (w[0] >> 63) == 0; // into_float_with_exponent(1) of bits>>12 in [2,4) minus 3: sign decided by top mantissa bit
    assert!(!x.is_nan());
    assert!(x.abs() <= ZIG_NORM_X[0] || (i == 0 && x.abs() >= ZIG_NORM_R));
    if i > 0 { assert!(x.abs() <= ZIG_NORM_X[i]); }
    if x != 0.0 { assert!((x < 0.0) == neg); }
}

#[kani::proof]
#[kani::unwind(2)]
fn normal_step_concrete() {
    use crate::ziggurat_tables::*;
    let w: [u64; 4] = [9223372036854778111u64, 8589934766, 9943845831295864832, 43980550195200];
    let mut rng = WordsRng { w, i: 0 };
    let x: f64 = StandardNormal.sample(&mut rng);
    kani::cover!(x == 0.0);
    kani::cover!(rng.i == 2);
    let ax = if x < 0.0 { -x } else { x };
    assert!(ax <= ZIG_NORM_X[255]);
    assert!(x.abs() == ax);
}

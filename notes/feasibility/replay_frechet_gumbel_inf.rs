use rand_distr::{Distribution, Frechet, Gumbel, Zipf};
/// scripted RNG: yields the given words, then zeros
struct W(Vec<u64>, usize);
impl W { fn next(&mut self) -> u64 { let v = *self.0.get(self.1).unwrap_or(&0); self.1 += 1; v } }
impl rand::TryRng for W {
    type Error = core::convert::Infallible;
    fn try_next_u32(&mut self) -> Result<u32, Self::Error> { Ok(self.next() as u32) }
    fn try_next_u64(&mut self) -> Result<u64, Self::Error> { Ok(self.next()) }
    fn try_fill_bytes(&mut self, _: &mut [u8]) -> Result<(), Self::Error> { unimplemented!() }
}
fn main() {
    let d = Frechet::new(2.225074e-308f64, 1.237940e+27, 1.0).unwrap();
    let x: f64 = d.sample(&mut W(vec![u64::MAX], 0));
    println!("Frechet(loc=2.2e-308, scale=1.24e27, shape=1) word=MAX -> {x}");
    let d = Frechet::new(0.0f32, 1.0, 1.0).unwrap();
    let x: f32 = d.sample(&mut W(vec![u64::MAX], 0));
    println!("Frechet<f32>(0,1,1) word=MAX -> {x}");
    let g = Gumbel::new(0.0f64, 1.0).unwrap();
    let x: f64 = g.sample(&mut W(vec![u64::MAX], 0));
    println!("Gumbel(0,1) word=MAX -> {x}");
    let z = Zipf::new(10.0f64, 1.0).unwrap();
    let x: f64 = z.sample(&mut W(vec![u64::MAX, 0], 0));
    println!("Zipf(10,1) words=[MAX,0] -> {x}");
    let z = Zipf::new(10.0f32, 1.0).unwrap();
    let x: f32 = z.sample(&mut W(vec![u64::MAX, 0], 0));
    println!("Zipf<f32>(10,1) words=[MAX,0] -> {x}");
}

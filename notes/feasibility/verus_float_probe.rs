use vstd::prelude::*;
use vstd::std_specs::ops::*;
verus! {
#[verifier::external_body]
pub proof fn mul_total(a: f64, b: f64) ensures a.mul_req(b) {}
#[verifier::external_body]
pub proof fn add_total(a: f64, b: f64) ensures a.add_req(b) {}

pub fn fz(mean: f64, sd: f64, z: f64) -> (r: f64)
    ensures r == mean.add_spec(sd.mul_spec(z))
{
    proof { mul_total(sd, z); }
    let t = sd * z;
    proof { add_total(mean, t); }
    mean + t
}
pub fn two(mean: f64, sd: f64, z: f64) {
    let a = fz(mean, sd, z);
    let b = fz(mean, sd, z);
    assert(a == b);
}
} // verus!
fn main() {}

//! Bounded differential search on the REAL `WeightedTreeIndex` (labelled *bounded*, never counted as proved).
//! Used (a) to look for a concrete failing input when a Verus obligation of C09/C10 fails, and
//! (b) as a cross-check of the extraction rules (R3: `new` materialisation, R4: Option::inspect).
//!
//! Oracle: a plain weight list with i128 arithmetic, written from the property statements, not from the code.
//! usage: treesearch <type> <depth> <max_report>
use rand::RngExt;
use rand_distr::weighted::{Error, WeightedTreeIndex};
use std::collections::HashSet;
use verif_replay::{guarded, ScriptRng};

#[derive(Clone, Debug)]
enum Op {
    Push(i128),
    Pop,
    Update(usize, i128),
}

macro_rules! search {
    ($W:ty, $tyname:expr, $depth:expr, $max_report:expr) => {{
        let max = <$W>::MAX as i128;
        let min = <$W>::MIN as i128;
        let mut alpha: Vec<i128> = vec![0, 1, 2, max / 2, max - 1, max];
        if min < 0 {
            alpha.push(-1);
            alpha.push(min);
        }
        let mut small: Vec<i128> = vec![0, 1, 2, max / 2, max];
        if min < 0 {
            small.push(-1);
        }
        let mut found: Vec<String> = Vec::new();
        let mut states_checked: u64 = 0;
        let mut ops_run: u64 = 0;
        let mut sampled_states: u64 = 0;
        let mut seen_sample: HashSet<Vec<i128>> = HashSet::new();
        let mut report = |kind: &str, init: &Vec<i128>, ops: &Vec<Op>, detail: String, found: &mut Vec<String>| {
            if found.len() < $max_report {
                found.push(format!(
                    "{{\"kind\":\"{}\",\"type\":\"{}\",\"init\":{:?},\"ops\":\"{:?}\",\"detail\":\"{}\"}}",
                    kind, $tyname, init, ops, detail.replace('"', "'")
                ));
            }
        };
        // ---- oracle for new()
        let oracle_new = |ws: &Vec<i128>| -> Result<(), Error> {
            if ws.iter().any(|w| *w < 0) {
                return Err(Error::InvalidWeight);
            }
            if ws.iter().sum::<i128>() > max {
                return Err(Error::Overflow);
            }
            Ok(())
        };
        let to_w = |ws: &Vec<i128>| -> Vec<$W> { ws.iter().map(|w| *w as $W).collect() };
        // all initial vectors of length 0..=3
        let mut inits: Vec<Vec<i128>> = vec![vec![]];
        for len in 1..=3usize {
            let mut idx = vec![0usize; len];
            loop {
                inits.push(idx.iter().map(|i| small[*i]).collect());
                let mut k = 0;
                while k < len {
                    idx[k] += 1;
                    if idx[k] < small.len() { break; }
                    idx[k] = 0;
                    k += 1;
                }
                if k == len { break; }
            }
        }
        for init in inits.iter() {
            let wv = to_w(init);
            let built = guarded(|| WeightedTreeIndex::<$W>::new(wv.clone()));
            let exp = oracle_new(init);
            let tree = match (built, exp) {
                (Err(p), _) => { report("panic-in-new", init, &vec![], p, &mut found); continue; }
                (Ok(Err(e)), Err(x)) => { if e != x { report("new-wrong-error", init, &vec![], format!("got {:?} expected {:?}", e, x), &mut found); } continue; }
                (Ok(Err(e)), Ok(())) => { report("new-spurious-error", init, &vec![], format!("{:?}", e), &mut found); continue; }
                (Ok(Ok(_)), Err(x)) => { report("new-missing-error", init, &vec![], format!("expected {:?}", x), &mut found); continue; }
                (Ok(Ok(t)), Ok(())) => t,
            };
            // DFS over histories
            let mut stack: Vec<(WeightedTreeIndex<$W>, Vec<i128>, Vec<Op>)> = vec![(tree, init.clone(), vec![])];
            while let Some((t, list, hist)) = stack.pop() {
                // ---- state check: indistinguishable from a fresh build
                states_checked += 1;
                let total: i128 = list.iter().sum();
                let chk = guarded(|| {
                    let mut bad: Option<String> = None;
                    if t.len() != list.len() { bad = Some(format!("len {} vs {}", t.len(), list.len())); }
                    if t.is_empty() != list.is_empty() { bad = Some("is_empty".into()); }
                    if t.is_valid() != (total > 0) { bad = Some(format!("is_valid {} total {}", t.is_valid(), total)); }
                    for i in 0..list.len().min(t.len()) {
                        if t.get(i) as i128 != list[i] { bad = Some(format!("get({}) = {} expected {}", i, t.get(i), list[i])); }
                    }
                    match WeightedTreeIndex::<$W>::new(to_w(&list)) {
                        Ok(fresh) => { if fresh != t { bad = Some("not == fresh build".into()); } }
                        Err(e) => { bad = Some(format!("fresh build of reachable list fails: {:?}", e)); }
                    }
                    bad
                });
                match chk {
                    Err(p) => report("panic-in-observer", init, &hist, p, &mut found),
                    Ok(Some(b)) => report("state-mismatch", init, &hist, b, &mut found),
                    Ok(None) => {}
                }
                // ---- sampling check (C10): exact counts over a word lattice hitting every target once
                if total > 0 && total <= 48 && !seen_sample.contains(&list) {
                    seen_sample.insert(list.clone());
                    let tot = total as u64;
                    for bits in [32u32, 64u32] {
                        let words: Vec<u64> = (0..tot).map(|k| {
                            if bits == 32 { ((((2 * k + 1) as u128) << 31) / tot as u128) as u64 }
                            else { ((((2 * k + 1) as u128) << 63) / tot as u128) as u64 }
                        }).collect();
                        // self-check of the lattice against rand's real sampler
                        let mut hit = vec![0u32; tot as usize];
                        let mut ok = true;
                        for w in words.iter() {
                            let mut r = ScriptRng::new(&[*w], 99);
                            let tval = r.random_range((0 as $W)..(total as $W)) as i128;
                            if r.drawn != 1 || tval < 0 || tval >= total { ok = false; break; }
                            hit[tval as usize] += 1;
                        }
                        if !ok || hit.iter().any(|h| *h != 1) { continue; }
                        sampled_states += 1;
                        let mut counts = vec![0i128; list.len()];
                        for w in words.iter() {
                            let tt = t.clone();
                            let ww = *w;
                            match guarded(move || { let mut r = ScriptRng::new(&[ww], 99); tt.try_sample(&mut r) }) {
                                Err(p) => { report("panic-in-sample", init, &hist, format!("word {} : {}", w, p), &mut found); }
                                Ok(Err(e)) => { report("sample-error-on-valid", init, &hist, format!("word {} : {:?}", w, e), &mut found); }
                                Ok(Ok(i)) => {
                                    if i >= list.len() { report("sample-out-of-range", init, &hist, format!("word {} -> {}", w, i), &mut found); }
                                    else { if list[i] == 0 { report("sample-zero-weight", init, &hist, format!("word {} -> index {}", w, i), &mut found); } counts[i] += 1; }
                                }
                            }
                        }
                        if counts != list { report("sample-counts", init, &hist, format!("counts {:?} weights {:?}", counts, list), &mut found); }
                        break;
                    }
                }
                if total == 0 {
                    let tt = t.clone();
                    match guarded(move || { let mut r = ScriptRng::new(&[7], 99); tt.try_sample(&mut r) }) {
                        Ok(Err(Error::InsufficientNonZero)) => {}
                        other => report("sample-on-invalid", init, &hist, format!("{:?}", other.map(|x| x.map_err(|e| format!("{:?}", e)))), &mut found),
                    }
                }
                if hist.len() >= $depth || found.len() >= $max_report { continue; }
                // ---- successors
                let mut ops: Vec<Op> = vec![Op::Pop];
                for w in alpha.iter() { ops.push(Op::Push(*w)); }
                for i in 0..list.len() { for w in alpha.iter() { ops.push(Op::Update(i, *w)); } }
                for op in ops {
                    ops_run += 1;
                    let mut h2 = hist.clone();
                    h2.push(op.clone());
                    let mut t2 = t.clone();
                    let mut l2 = list.clone();
                    match op {
                        Op::Pop => {
                            let r = guarded(move || { let x = t2.pop(); (t2, x) });
                            match r {
                                Err(p) => { report("panic-in-pop", init, &h2, p, &mut found); continue; }
                                Ok((t3, x)) => {
                                    let exp = l2.pop();
                                    if x.map(|v| v as i128) != exp { report("pop-value", init, &h2, format!("{:?} expected {:?}", x, exp), &mut found); }
                                    stack.push((t3, l2, h2));
                                }
                            }
                        }
                        Op::Push(w) => {
                            let exp: Result<(), Error> = if w < 0 { Err(Error::InvalidWeight) } else if total + w > max { Err(Error::Overflow) } else { Ok(()) };
                            let r = guarded(move || { let x = t2.push(w as $W); (t2, x) });
                            match r {
                                Err(p) => { report("panic-in-push", init, &h2, p, &mut found); continue; }
                                Ok((t3, x)) => {
                                    if x != exp { report("push-result", init, &h2, format!("{:?} expected {:?}", x, exp), &mut found); }
                                    if x.is_ok() { l2.push(w); } else if t3 != t { report("push-error-mutated", init, &h2, "state changed on Err".into(), &mut found); }
                                    stack.push((t3, l2, h2));
                                }
                            }
                        }
                        Op::Update(i, w) => {
                            let exp: Result<(), Error> = if w < 0 { Err(Error::InvalidWeight) } else if total - list[i] + w > max { Err(Error::Overflow) } else { Ok(()) };
                            let r = guarded(move || { let x = t2.update(i, w as $W); (t2, x) });
                            match r {
                                Err(p) => { report("panic-in-update", init, &h2, p, &mut found); continue; }
                                Ok((t3, x)) => {
                                    if x != exp { report("update-result", init, &h2, format!("{:?} expected {:?}", x, exp), &mut found); }
                                    if x.is_ok() { l2[i] = w; } else if t3 != t { report("update-error-mutated", init, &h2, "state changed on Err".into(), &mut found); }
                                    stack.push((t3, l2, h2));
                                }
                            }
                        }
                    }
                }
            }
        }
        println!("{{\"summary\":true,\"type\":\"{}\",\"depth\":{},\"initial_vectors\":{},\"states_checked\":{},\"ops_run\":{},\"sampled_states\":{},\"violations\":{}}}",
                 $tyname, $depth, inits.len(), states_checked, ops_run, sampled_states, found.len());
        for f in found.iter() { println!("{}", f); }
        found.len()
    }};
}

fn main() {
    std::panic::set_hook(Box::new(|_| {}));
    let args: Vec<String> = std::env::args().collect();
    let ty = args.get(1).map(|s| s.as_str()).unwrap_or("u8");
    let depth: usize = args.get(2).and_then(|s| s.parse().ok()).unwrap_or(2);
    let max_report: usize = args.get(3).and_then(|s| s.parse().ok()).unwrap_or(5);
    let n = match ty {
        "u8" => search!(u8, "u8", depth, max_report),
        "i8" => search!(i8, "i8", depth, max_report),
        "u16" => search!(u16, "u16", depth, max_report),
        "i32" => search!(i32, "i32", depth, max_report),
        "u64" => search!(u64, "u64", depth, max_report),
        "i64" => search!(i64, "i64", depth, max_report),
        _ => { eprintln!("unsupported type {}", ty); std::process::exit(2) }
    };
    std::process::exit(if n > 0 { 1 } else { 0 });
}

//! Bounded differential search on the REAL `WeightedAliasIndex` (labelled *bounded*, never counted as proved).
//! Looks for a concrete failing weight vector when a Verus obligation of C08 fails and cross-checks the
//! extraction rules R8/R9/R10 (iterator chains replaced by prelude contracts) on the real code.
//!
//! Oracle (from the property statement): new() fails with InvalidInput on empty input, InvalidWeight on a
//! negative or > MAX/len weight, InsufficientNonZero when all weights are zero; otherwise weights() returns the
//! input exactly and index i is selected by exactly len*w[i] of the len*sum equally likely (column, threshold) pairs.
//! usage: aliassearch <type> <maxlen> <max_report>
use rand::distr::{Distribution, Uniform};
use rand_distr::weighted::{Error, WeightedAliasIndex};
use verif_replay::{guarded, ScriptRng};

macro_rules! search {
    ($W:ty, $tyname:expr, $maxlen:expr, $max_report:expr) => {{
        let max = <$W>::MAX as i128;
        let min = <$W>::MIN as i128;
        let mut found: Vec<String> = Vec::new();
        let mut vectors: u64 = 0;
        let mut accepted: u64 = 0;
        let mut sampled: u64 = 0;
        let report = |kind: &str, ws: &Vec<i128>, detail: String, found: &mut Vec<String>| {
            if found.len() < $max_report {
                found.push(format!("{{\"kind\":\"{}\",\"type\":\"{}\",\"weights\":{:?},\"detail\":\"{}\"}}", kind, $tyname, ws, detail.replace('"', "'")));
            }
        };
        for len in 0..=$maxlen {
            let per = if len > 0 { max / len as i128 } else { max };
            let mut alpha: Vec<i128> = vec![0, 1, 2, 3, 5, per / 2, per - 1, per, per + 1, max];
            if min < 0 { alpha.push(-1); }
            alpha.sort(); alpha.dedup();
            alpha.retain(|a| *a >= min && *a <= max);
            let mut idx = vec![0usize; len];
            loop {
                let ws: Vec<i128> = idx.iter().map(|i| alpha[*i]).collect();
                vectors += 1;
                let sum: i128 = ws.iter().sum();
                let exp: Result<(), Error> = if len == 0 { Err(Error::InvalidInput) }
                    else if ws.iter().any(|w| *w < 0 || *w > per) { Err(Error::InvalidWeight) }
                    else if sum == 0 { Err(Error::InsufficientNonZero) } else { Ok(()) };
                let wv: Vec<$W> = ws.iter().map(|w| *w as $W).collect();
                match guarded(move || WeightedAliasIndex::<$W>::new(wv)) {
                    Err(p) => report("panic-in-new", &ws, p, &mut found),
                    Ok(Err(e)) => { if Err(e) != exp { report("new-result", &ws, format!("got Err({:?}) expected {:?}", e, exp), &mut found); } }
                    Ok(Ok(t)) => {
                        if exp.is_err() { report("new-missing-error", &ws, format!("expected {:?}", exp), &mut found); }
                        else {
                            accepted += 1;
                            let t2 = t.clone();
                            match guarded(move || t2.weights()) {
                                Err(p) => report("panic-in-weights", &ws, p, &mut found),
                                Ok(back) => { let b: Vec<i128> = back.iter().map(|x| *x as i128).collect(); if b != ws { report("weights-roundtrip", &ws, format!("{:?}", b), &mut found); } }
                            }
                            // exact sampling frequencies over a (column, threshold) lattice
                            let n = len as u64;
                            if sum > 0 && sum <= 40 {
                                let s = sum as u64;
                                let cw: Vec<u64> = (0..n).map(|k| ((((2 * k + 1) as u128) << 31) / n as u128) as u64).collect();
                                for bits in [32u32, 64u32] {
                                    let tw: Vec<u64> = (0..s).map(|k| if bits == 32 { ((((2 * k + 1) as u128) << 31) / s as u128) as u64 } else { ((((2 * k + 1) as u128) << 63) / s as u128) as u64 }).collect();
                                    // self-check of both lattices against rand's real Uniform samplers
                                    let uc = Uniform::<u32>::new(0, n as u32).unwrap();
                                    let ut = Uniform::<$W>::new(0 as $W, sum as $W).unwrap();
                                    let mut ok = true;
                                    for (k, w) in cw.iter().enumerate() { let mut r = ScriptRng::new(&[*w], 5); if uc.sample(&mut r) as usize != k || r.drawn != 1 { ok = false; } }
                                    for (k, w) in tw.iter().enumerate() { let mut r = ScriptRng::new(&[*w], 5); if ut.sample(&mut r) as i128 != k as i128 || r.drawn != 1 { ok = false; } }
                                    if !ok { continue; }
                                    sampled += 1;
                                    let mut counts = vec![0i128; len];
                                    for c in cw.iter() { for x in tw.iter() {
                                        let tt = t.clone(); let (c, x) = (*c, *x);
                                        match guarded(move || { let mut r = ScriptRng::new(&[c, x], 5); let i = tt.sample(&mut r); (i, r.drawn) }) {
                                            Err(p) => report("panic-in-sample", &ws, format!("words {} {} : {}", c, x, p), &mut found),
                                            Ok((i, drawn)) => {
                                                if i >= len { report("sample-out-of-range", &ws, format!("words {} {} -> {}", c, x, i), &mut found); }
                                                else { if ws[i] == 0 { report("sample-zero-weight", &ws, format!("words {} {} -> {}", c, x, i), &mut found); } counts[i] += 1; }
                                                if drawn != 2 { report("sample-draw-count", &ws, format!("{} words drawn", drawn), &mut found); }
                                            }
                                        }
                                    } }
                                    let want: Vec<i128> = ws.iter().map(|w| w * len as i128).collect();
                                    if counts != want { report("sample-counts", &ws, format!("counts {:?} expected {:?}", counts, want), &mut found); }
                                    break;
                                }
                            }
                        }
                    }
                }
                if found.len() >= $max_report { break; }
                let mut k = 0;
                while k < len { idx[k] += 1; if idx[k] < alpha.len() { break; } idx[k] = 0; k += 1; }
                if k == len { break; }
            }
        }
        // ---- long vectors: lengths around the point where the length itself stops fitting the weight type
        let mut long_vectors: u64 = 0;
        if max <= 70000 {
            let lens: Vec<usize> = vec![(max - 1) as usize, max as usize, (max + 1) as usize, (max + 45) as usize, (2 * max + 2) as usize];
            for len in lens {
                if len == 0 || len > 140000 || found.len() >= $max_report { continue; }
                let per = max / len as i128;
                for pat in 0..4 {
                    let mut ws: Vec<i128> = vec![0; len];
                    match pat { 0 => {}, 1 => { ws[0] = 1; }, 2 => { ws[0] = 5; }, _ => { ws[len - 1] = per.max(1); ws[len / 2] = 1; } }
                    long_vectors += 1;
                    let sum: i128 = ws.iter().sum();
                    let exp: Result<(), Error> = if ws.iter().any(|w| *w < 0 || *w > per) { Err(Error::InvalidWeight) } else if sum == 0 { Err(Error::InsufficientNonZero) } else { Ok(()) };
                    let wv: Vec<$W> = ws.iter().map(|w| *w as $W).collect();
                    let short: Vec<i128> = vec![len as i128, ws[0], ws[len / 2], ws[len - 1]];
                    match guarded(move || WeightedAliasIndex::<$W>::new(wv)) {
                        Err(p) => report("panic-in-new(long: len,w[0],w[len/2],w[len-1])", &short, p, &mut found),
                        Ok(Err(e)) => { if Err(e) != exp { report("new-result(long: len,w[0],w[len/2],w[len-1])", &short, format!("got Err({:?}) expected {:?}", e, exp), &mut found); } }
                        Ok(Ok(t)) => {
                            if exp.is_err() { report("new-missing-error(long: len,w[0],w[len/2],w[len-1])", &short, format!("expected {:?}", exp), &mut found); }
                            else {
                                let t2 = t.clone();
                                match guarded(move || t2.weights()) {
                                    Err(p) => report("panic-in-weights(long)", &short, p, &mut found),
                                    Ok(back) => { let b: Vec<i128> = back.iter().map(|x| *x as i128).collect(); if b != ws { report("weights-roundtrip(long)", &short, "differs".into(), &mut found); } }
                                }
                            }
                            // whatever was accepted must never yield a zero-weight index
                            for k in 0..2000u64 {
                                let tt = t.clone();
                                if let Ok(i) = guarded(move || { let mut r = ScriptRng::new(&[], 1234 + k); tt.sample(&mut r) }) {
                                    if i >= len || ws[i] == 0 { report("sample-zero-weight(long: len,w[0],w[len/2],w[len-1])", &short, format!("seed {} -> index {}", 1234 + k, i), &mut found); break; }
                                } else { report("panic-in-sample(long)", &short, "panic".into(), &mut found); break; }
                            }
                        }
                    }
                }
            }
        }
        println!("{{\"summary\":true,\"type\":\"{}\",\"maxlen\":{},\"vectors\":{},\"accepted\":{},\"sampled_tables\":{},\"long_vectors\":{},\"violations\":{}}}", $tyname, $maxlen, vectors, accepted, sampled, long_vectors, found.len());
        for f in found.iter() { println!("{}", f); }
        found.len()
    }};
}

fn main() {
    std::panic::set_hook(Box::new(|_| {}));
    let args: Vec<String> = std::env::args().collect();
    let ty = args.get(1).map(|s| s.as_str()).unwrap_or("u8");
    let maxlen: usize = args.get(2).and_then(|s| s.parse().ok()).unwrap_or(3);
    let max_report: usize = args.get(3).and_then(|s| s.parse().ok()).unwrap_or(5);
    let n = match ty {
        "u8" => search!(u8, "u8", maxlen, max_report),
        "i8" => search!(i8, "i8", maxlen, max_report),
        "u16" => search!(u16, "u16", maxlen, max_report),
        "i32" => search!(i32, "i32", maxlen, max_report),
        "u64" => search!(u64, "u64", maxlen, max_report),
        "i64" => search!(i64, "i64", maxlen, max_report),
        _ => { eprintln!("unsupported type {}", ty); std::process::exit(2) }
    };
    std::process::exit(if n > 0 { 1 } else { 0 });
}

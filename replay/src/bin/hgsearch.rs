//! Bounded native search (never counted as proved): Hypergeometric::sample under extreme first words, all (N, K, n) up to a bound.
//! usage: hgsearch <maxN> <max_report>
use rand_distr::{Distribution, Hypergeometric};
use verif_replay::{guarded, ScriptRng};
fn main() {
    std::panic::set_hook(Box::new(|_| {}));
    let a: Vec<u64> = std::env::args().skip(1).map(|s| s.parse().unwrap()).collect();
    let (max_n, max_report) = (a[0], a[1] as usize);
    let words: [u64; 4] = [u64::MAX, 0, 1u64 << 63, u64::MAX - 0x7ff];
    let (mut cases, mut found) = (0u64, 0usize);
    for n_pop in 1..=max_n { for k_feat in 0..=n_pop { for n_samp in 0..=n_pop {
        let d = match Hypergeometric::new(n_pop, k_feat, n_samp) { Ok(d) => d, Err(_) => continue };
        let lo = (n_samp + k_feat).saturating_sub(n_pop);
        let hi = n_samp.min(k_feat);
        for w in words.iter() {
            cases += 1;
            let ww = *w;
            match guarded(move || { let mut r = ScriptRng::new(&[ww], 11); d.sample(&mut r) }) {
                Err(p) => { if found < max_report { println!("{{\"kind\":\"panic\",\"N\":{},\"K\":{},\"n\":{},\"word\":{},\"detail\":\"{}\"}}", n_pop, k_feat, n_samp, w, p.replace('"', "'")); } found += 1; }
                Ok(x) => if x < lo || x > hi { if found < max_report { println!("{{\"kind\":\"outside-support\",\"N\":{},\"K\":{},\"n\":{},\"word\":{},\"value\":{},\"support\":[{},{}]}}", n_pop, k_feat, n_samp, w, x, lo, hi); } found += 1; }
            }
        }
    } } }
    println!("{{\"summary\":true,\"maxN\":{},\"cases\":{},\"violations\":{}}}", max_n, cases, found);
    std::process::exit(if found > 0 { 1 } else { 0 });
}

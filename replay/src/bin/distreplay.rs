//! Native replay of a Kani counterexample on the REAL crate.
//! usage: distreplay <kind> <unit id> <float|-> <ty:bits>...      (ty in f64,f32,u64,u32,usize ; w:<word> for RNG words)
//! exit 1: the contract predicate is violated natively, or the real crate panics (counterexample confirmed); exit 0: it holds; exit 2: unknown unit.
use verif_replay::gen_ctor::replay_ctor;
use verif_replay::samplers::replay_sampler;

fn main() {
    std::panic::set_hook(Box::new(|_| {}));
    let args: Vec<String> = std::env::args().collect();
    if args.len() < 4 { eprintln!("usage: distreplay <kind> <id> <float|-> args.."); std::process::exit(2); }
    let (kind, id, fl) = (args[1].as_str(), args[2].as_str(), args[3].as_str());
    let mut vals: Vec<u64> = Vec::new();
    let mut words: Vec<u64> = Vec::new();
    for a in &args[4..] {
        let (t, v) = a.split_once(':').expect("ty:bits");
        let v: u64 = v.parse().expect("decimal bits");
        if t == "w" { words.push(v) } else { vals.push(v) }
    }
    // the replay code itself never unwraps a constructor result (`.ok()?`), so a panic here is a panic of the REAL crate
    // on the verifier's input - a violation of the "never panics" part of every contract
    let res = match std::panic::catch_unwind(|| match kind {
        "ctor" => replay_ctor(id, fl, &vals),
        "sampler" => replay_sampler(id, fl, &vals, &words),
        _ => None,
    }) {
        Ok(r) => r,
        Err(e) => {
            let msg = e.downcast_ref::<String>().cloned().or_else(|| e.downcast_ref::<&str>().map(|s| s.to_string())).unwrap_or_default();
            Some((false, format!("{} {} {}: the real crate PANICKED on values {:?} words {:?}: {}", kind, id, fl, vals, words, msg)))
        }
    };
    match res {
        None => { println!("unknown replay unit {} {} {}", kind, id, fl); std::process::exit(2) }
        Some((ok, text)) => {
            println!("{}", text);
            println!("contract predicate {}", if ok { "HOLDS natively" } else { "VIOLATED natively" });
            std::process::exit(if ok { 0 } else { 1 });
        }
    }
}

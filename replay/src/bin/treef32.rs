//! native replay of float-weight tree counterexamples: treef32 <w0 bits> <w1 bits> <word>
use rand_distr::weighted::WeightedTreeIndex;
use verif_replay::{guarded, ScriptRng};
fn main() {
    std::panic::set_hook(Box::new(|_| {}));
    let a: Vec<u64> = std::env::args().skip(1).map(|s| s.parse().unwrap()).collect();
    let (w0, w1) = (f32::from_bits(a[0] as u32), f32::from_bits(a[1] as u32));
    let t = WeightedTreeIndex::<f32>::new([w0, w1]).unwrap();
    println!("weights [{:e}, {:e}] is_valid={} get(0)={:e} get(1)={:e}", w0, w1, t.is_valid(), t.get(0), t.get(1));
    let word = a[2];
    match guarded(move || { let mut r = ScriptRng::new(&[word, word], 7); t.try_sample(&mut r) }) {
        Ok(r) => { println!("try_sample(word {}) = {:?}", word, r); std::process::exit(0) }
        Err(p) => { println!("try_sample(word {}) PANICKED: {}", word, p); std::process::exit(1) }
    }
}

//! Bounded native search: InverseGaussian / StudentT / FisherF samples over parameter grids and pseudo-random + boundary words.
//! usage: igsearch <which> <samples per parameter point> <max_report>
use rand_distr::{Distribution, FisherF, InverseGaussian, StudentT};
use verif_replay::ScriptRng;
fn main() {
    let a: Vec<String> = std::env::args().collect();
    let which = a[1].as_str(); let per: u64 = a[2].parse().unwrap(); let max_report: usize = a[3].parse().unwrap();
    let grid = [1e-3f64, 1e-2, 0.1, 0.5, 1.0, 2.0, 10.0, 100.0, 1e3, 1e4];
    let boundary: [u64; 6] = [0, u64::MAX, 1 << 63, (1 << 63) - 1, 0xfff, u64::MAX - 0xfff];
    let (mut cases, mut found) = (0u64, 0usize);
    for p0 in grid.iter() { for p1 in grid.iter() {
        for s in 0..per {
            let words: Vec<u64> = if s < 36 { vec![boundary[(s / 6) as usize], boundary[(s % 6) as usize]] } else { vec![] };
            let mut rng = ScriptRng::new(&words, 0x9e3779b97f4a7c15u64.wrapping_mul(s + 1) ^ p0.to_bits() ^ p1.to_bits().rotate_left(17));
            cases += 1;
            let (x, ok): (f64, bool) = match which {
                "ig" => { let x = InverseGaussian::new(*p0, *p1).unwrap().sample(&mut rng); (x, !x.is_nan() && x > 0.0) }
                "t" => { if *p1 != grid[0] { continue; } let x = StudentT::new(*p0).unwrap().sample(&mut rng); (x, !x.is_nan()) }
                _ => { let x = FisherF::new(*p0, *p1).unwrap().sample(&mut rng); (x, !x.is_nan() && x >= 0.0) }
            };
            if !ok { if found < max_report { println!("{{\"kind\":\"{}-outside-support\",\"p0\":{:e},\"p1\":{:e},\"sample_index\":{},\"words\":{:?},\"value\":\"{:e}\"}}", which, p0, p1, s, words, x); } found += 1; }
        }
    } }
    println!("{{\"summary\":true,\"which\":\"{}\",\"cases\":{},\"violations\":{}}}", which, cases, found);
    std::process::exit(if found > 0 { 1 } else { 0 });
}

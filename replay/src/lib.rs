//! Native replay helpers: scripted RNG (chosen words first, then a seeded xorshift stream) and small utilities.
use rand::rand_core::{Infallible, TryRng};
pub use rand_distr as rd;
/// contract predicates shared with the Kani overlay (copied from kx/spec.rs at build time)
pub mod spec;
/// generated constructor dispatcher (kx/kunits.py)
pub mod gen_ctor;
pub mod samplers;
pub mod samplers2;

/// RNG that hands out the scripted words first and a seeded PRNG stream afterwards
/// (a constant tail would make rejection samplers spin forever).
pub struct ScriptRng {
    pub words: Vec<u64>,
    pub pos: usize,
    pub tail: u64,
    pub drawn: usize,
}

impl ScriptRng {
    pub fn new(words: &[u64], seed: u64) -> Self {
        ScriptRng { words: words.to_vec(), pos: 0, tail: seed | 1, drawn: 0 }
    }
    fn next(&mut self) -> u64 {
        self.drawn += 1;
        if self.pos < self.words.len() {
            self.pos += 1;
            return self.words[self.pos - 1];
        }
        // xorshift64*
        let mut x = self.tail;
        x ^= x >> 12;
        x ^= x << 25;
        x ^= x >> 27;
        self.tail = x;
        x.wrapping_mul(0x2545F4914F6CDD1D)
    }
}

impl TryRng for ScriptRng {
    type Error = Infallible;
    fn try_next_u32(&mut self) -> Result<u32, Infallible> {
        Ok(self.next() as u32)
    }
    fn try_next_u64(&mut self) -> Result<u64, Infallible> {
        Ok(self.next())
    }
    fn try_fill_bytes(&mut self, dst: &mut [u8]) -> Result<(), Infallible> {
        for chunk in dst.chunks_mut(8) {
            let w = self.next().to_le_bytes();
            chunk.copy_from_slice(&w[..chunk.len()]);
        }
        Ok(())
    }
}

/// run `f`, turning a panic into Err(message)
pub fn guarded<T>(f: impl FnOnce() -> T + std::panic::UnwindSafe) -> Result<T, String> {
    match std::panic::catch_unwind(f) {
        Ok(v) => Ok(v),
        Err(e) => Err(if let Some(s) = e.downcast_ref::<&str>() {
            s.to_string()
        } else if let Some(s) = e.downcast_ref::<String>() {
            s.clone()
        } else {
            "panic".to_string()
        }),
    }
}

//! Native evaluation of the sampler predicates for decoded counterexamples: the distribution is built from the
//! decoded parameter bits on the REAL crate and sampled with the decoded RNG words (then a seeded PRNG tail).
use crate::rd;
use crate::ScriptRng;
use rd::Distribution;

macro_rules! one_draw {
    ($F:ty, $from:expr, $id:expr, $a:expr, $words:expr) => {{
        let f = $from;
        let a: &[u64] = $a;
        let words: &[u64] = $words;
        let mut rng = ScriptRng::new(words, 0x5eed);
        match $id {
            "cauchy" if a.len() >= 2 => { let (m, s): ($F, $F) = (f(a[0]), f(a[1])); let d = rd::Cauchy::<$F>::new(m, s).ok()?;
                let x: $F = d.sample(&mut rng); Some((!x.is_nan() && rng.drawn == 1, format!("Cauchy({:?}, {:?}).sample(words {:?}) = {:?}, {} word(s) drawn", m, s, words, x, rng.drawn))) }
            "pareto" if a.len() >= 2 => { let (sc, sh): ($F, $F) = (f(a[0]), f(a[1])); let d = rd::Pareto::<$F>::new(sc, sh).ok()?;
                let x: $F = d.sample(&mut rng); Some((!x.is_nan() && x >= sc && rng.drawn == 1, format!("Pareto({:?}, {:?}).sample(words {:?}) = {:?}, {} word(s) drawn", sc, sh, words, x, rng.drawn))) }
            "weibull" if a.len() >= 2 => { let (sc, sh): ($F, $F) = (f(a[0]), f(a[1])); let d = rd::Weibull::<$F>::new(sc, sh).ok()?;
                let x: $F = d.sample(&mut rng); Some((!x.is_nan() && x >= 0.0 && rng.drawn == 1, format!("Weibull({:?}, {:?}).sample(words {:?}) = {:?}, {} word(s) drawn", sc, sh, words, x, rng.drawn))) }
            "gumbel" if a.len() >= 2 => { let (l, s): ($F, $F) = (f(a[0]), f(a[1])); let d = rd::Gumbel::<$F>::new(l, s).ok()?;
                let x: $F = d.sample(&mut rng); Some((x.is_finite() && rng.drawn == 1, format!("Gumbel({:?}, {:?}).sample(words {:?}) = {:?}, {} word(s) drawn", l, s, words, x, rng.drawn))) }
            "frechet" if a.len() >= 3 => { let (l, s, sh): ($F, $F, $F) = (f(a[0]), f(a[1]), f(a[2])); let d = rd::Frechet::<$F>::new(l, s, sh).ok()?;
                let x: $F = d.sample(&mut rng); Some((!x.is_nan() && x >= l && rng.drawn == 1, format!("Frechet({:?}, {:?}, {:?}).sample(words {:?}) = {:?}, {} word(s) drawn", l, s, sh, words, x, rng.drawn))) }
            "triangular" if a.len() >= 3 => { let (mn, mx, md): ($F, $F, $F) = (f(a[0]), f(a[1]), f(a[2])); let d = rd::Triangular::<$F>::new(mn, mx, md).ok()?;
                let x: $F = d.sample(&mut rng); Some((!x.is_nan() && rng.drawn == 1, format!("Triangular({:?}, {:?}, {:?}).sample(words {:?}) = {:?}, {} word(s) drawn", mn, mx, md, words, x, rng.drawn))) }
            _ => None,
        }
    }};
}

pub fn replay_sampler(id: &str, fl: &str, a: &[u64], words: &[u64]) -> Option<(bool, String)> {
    if let Some(r) = crate::samplers2::replay_sampler2(id, fl, a, words) { return Some(r); }
    match fl {
        "f64" => one_draw!(f64, |b: u64| f64::from_bits(b), id, a, words),
        "f32" => one_draw!(f32, |b: u64| f32::from_bits(b as u32), id, a, words),
        _ => None,
    }
}

//! Native evaluation of the sampler (support / affine-map) predicates for decoded counterexamples.
use crate::rd;
use crate::spec;
use crate::ScriptRng;
use rd::Distribution;

pub fn replay_sampler(_id: &str, _fl: &str, _a: &[u64], _words: &[u64]) -> Option<(bool, String)> {
    None
}

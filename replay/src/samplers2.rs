//! Native replays for the remaining sampler units (ziggurat steps, affine-map pairs, weighted float trees, ...).
use crate::rd;
use crate::ScriptRng;
use rd::Distribution;

pub fn replay_sampler2(id: &str, fl: &str, a: &[u64], words: &[u64]) -> Option<(bool, String)> {
    let _ = (fl, a);
    match id {
        "standard_normal" => { let mut rng = ScriptRng::new(words, 0x5eed); let x: f64 = rd::StandardNormal.sample(&mut rng);
            Some((x.is_finite(), format!("StandardNormal.sample(words {:?}) = {:?}", words, x))) }
        "exp1" => { let mut rng = ScriptRng::new(words, 0x5eed); let x: f64 = rd::Exp1.sample(&mut rng);
            Some((x.is_finite() && x > 0.0, format!("Exp1.sample(words {:?}) = {:?} (support (0, inf))", words, x))) }
        "normal_from_zscore" if a.len() >= 3 => {
            let (m, sd, z) = (f32::from_bits(a[0] as u32), f32::from_bits(a[1] as u32), f32::from_bits(a[2] as u32));
            let n = rd::Normal::<f32>::new(m, sd).ok()?; let got = n.from_zscore(z); let want = m + sd * z;
            Some((got == want || (got.is_nan() && want.is_nan()), format!("Normal({:?}, {:?}).from_zscore({:?}) = {:?}, mean + std_dev*z = {:?}", m, sd, z, got, want))) }
        "lognormal_from_zscore" if a.len() >= 3 => {
            let (m, sd, z) = (f32::from_bits(a[0] as u32), f32::from_bits(a[1] as u32), f32::from_bits(a[2] as u32));
            let d = rd::LogNormal::<f32>::new(m, sd).ok()?; let got = d.from_zscore(z); let want = <f32 as rd::num_traits::Float>::exp(m + sd * z);
            Some((got == want || (got.is_nan() && want.is_nan()), format!("LogNormal({:?}, {:?}).from_zscore({:?}) = {:?}, exp(mu + sigma*z) = {:?}", m, sd, z, got, want))) }
        "cauchy_affine" | "gumbel_affine" | "frechet_affine_shape2" | "frechet_affine_shape075" if a.len() >= 2 && !words.is_empty() => {
            let (l, s) = (f32::from_bits(a[0] as u32), f32::from_bits(a[1] as u32));
            let (mut r1, mut r2) = (ScriptRng::new(&words[..1], 1), ScriptRng::new(&words[..1], 1));
            let (xa, xb): (f32, f32) = match id {
                "cauchy_affine" => (rd::Cauchy::<f32>::new(l, s).ok()?.sample(&mut r1), rd::Cauchy::<f32>::new(0.0, 1.0).ok()?.sample(&mut r2)),
                "gumbel_affine" => (rd::Gumbel::<f32>::new(l, s).ok()?.sample(&mut r1), rd::Gumbel::<f32>::new(0.0, 1.0).ok()?.sample(&mut r2)),
                "frechet_affine_shape2" => (rd::Frechet::<f32>::new(l, s, 2.0).ok()?.sample(&mut r1), rd::Frechet::<f32>::new(0.0, 1.0, 2.0).ok()?.sample(&mut r2)),
                _ => (rd::Frechet::<f32>::new(l, s, 0.75).ok()?.sample(&mut r1), rd::Frechet::<f32>::new(0.0, 1.0, 0.75).ok()?.sample(&mut r2)),
            };
            let want = l + s * xb;
            Some(((xa == want || (xa.is_nan() && want.is_nan())) && r1.drawn == r2.drawn,
                  format!("{}: sample(loc={:?}, scale={:?}) = {:?}; loc + scale * sample(0,1) = {:?} (standard draw {:?}); words drawn {} vs {}", id, l, s, xa, want, xb, r1.drawn, r2.drawn))) }
        "exp" if !a.is_empty() => { let l = f64::from_bits(a[0]); let d = rd::Exp::<f64>::new(l).ok()?;
            let mut rng = ScriptRng::new(words, 0x5eed); let x: f64 = d.sample(&mut rng);
            let ok = !x.is_nan() && x >= 0.0 && (if l == 0.0 { x == f64::INFINITY } else { x.is_finite() });
            Some((ok, format!("Exp({:?}).sample(words {:?}) = {:?}", l, words, x))) }
        "normal" if a.len() >= 2 => { let (m, s) = (f64::from_bits(a[0]), f64::from_bits(a[1])); let d = rd::Normal::<f64>::new(m, s).ok()?;
            let mut rng = ScriptRng::new(words, 0x5eed); let x: f64 = d.sample(&mut rng);
            Some((x.is_finite(), format!("Normal({:?}, {:?}).sample(words {:?}) = {:?}", m, s, words, x))) }
        "weibull_scale" | "pareto_scale" if a.len() >= 2 && !words.is_empty() => {
            let (sc, sh) = (f32::from_bits(a[0] as u32), f32::from_bits(a[1] as u32));
            let (mut r1, mut r2) = (ScriptRng::new(&words[..1], 1), ScriptRng::new(&words[..1], 1));
            let (xa, xb): (f32, f32) = if id == "weibull_scale" { (rd::Weibull::<f32>::new(sc, sh).ok()?.sample(&mut r1), rd::Weibull::<f32>::new(1.0, sh).ok()?.sample(&mut r2)) }
                                       else { (rd::Pareto::<f32>::new(sc, sh).ok()?.sample(&mut r1), rd::Pareto::<f32>::new(1.0, sh).ok()?.sample(&mut r2)) };
            let want = sc * xb;
            Some(((xa == want || (xa.is_nan() && want.is_nan())) && r1.drawn == r2.drawn, format!("{}: sample(scale={:?}, shape={:?}) = {:?}; scale * sample(1, shape) = {:?}", id, sc, sh, xa, want))) }
        "lognormal" | "gamma" | "beta" | "chi_squared" | "skew_normal" | "pert" | "poisson" => {
            let f = |i: usize| f64::from_bits(a[i]);
            let mut rng = ScriptRng::new(words, 0x5eed);
            let (x, ok, shown): (f64, bool, String) = match id {
                "lognormal" if a.len() >= 2 => { let x = rd::LogNormal::<f64>::new(f(0), f(1)).ok()?.sample(&mut rng); (x, !x.is_nan() && x >= 0.0, format!("LogNormal({:?}, {:?})", f(0), f(1))) }
                "gamma" if a.len() >= 2 => { let x = rd::Gamma::<f64>::new(f(0), f(1)).ok()?.sample(&mut rng); (x, !x.is_nan() && x >= 0.0, format!("Gamma({:?}, {:?})", f(0), f(1))) }
                "beta" if a.len() >= 2 => { let x = rd::Beta::<f64>::new(f(0), f(1)).ok()?.sample(&mut rng); (x, !x.is_nan() && x >= 0.0 && x <= 1.0, format!("Beta({:?}, {:?})", f(0), f(1))) }
                "chi_squared" if !a.is_empty() => { let x = rd::ChiSquared::<f64>::new(f(0)).ok()?.sample(&mut rng); (x, !x.is_nan() && x >= 0.0, format!("ChiSquared({:?})", f(0))) }
                "skew_normal" if a.len() >= 3 => { let x = rd::SkewNormal::<f64>::new(f(0), f(1), f(2)).ok()?.sample(&mut rng); (x, !x.is_nan(), format!("SkewNormal({:?}, {:?}, {:?})", f(0), f(1), f(2))) }
                "pert" if a.len() >= 3 => { let x = rd::Pert::<f64>::new(f(0), f(1)).with_mode(f(2)).ok()?.sample(&mut rng); (x, !x.is_nan() && x >= f(0), format!("Pert({:?}, {:?}, mode {:?})", f(0), f(1), f(2))) }
                "poisson" if !a.is_empty() => { let x = rd::Poisson::<f64>::new(f(0)).ok()?.sample(&mut rng); (x, !x.is_nan() && x >= 0.0, format!("Poisson({:?})", f(0))) }
                _ => return None,
            };
            Some((ok, format!("{}.sample(words {:?}) = {:?}", shown, words, x))) }
        "zipf" if a.len() >= 2 => { let (n, s) = (f64::from_bits(a[0]), f64::from_bits(a[1])); let d = rd::Zipf::<f64>::new(n, s).ok()?;
            let mut rng = ScriptRng::new(words, 0x5eed); let x: f64 = d.sample(&mut rng);
            Some((x >= 1.0 && x <= n, format!("Zipf({:?}, {:?}).sample(words {:?}) = {:?} (support [1, n])", n, s, words, x))) }
        "zeta" if !a.is_empty() => { let s = f64::from_bits(a[0]); let d = rd::Zeta::<f64>::new(s).ok()?;
            let mut rng = ScriptRng::new(words, 0x5eed); let x: f64 = d.sample(&mut rng);
            Some((x >= 1.0 && (s < 2.0 || x.is_finite()), format!("Zeta({:?}).sample(words {:?}) = {:?}", s, words, x))) }
        "normal_tail_pos" | "normal_tail_neg" => {
            // first word fixed by the unit (layer 0, |u| extreme), the decoded words are the tail words
            let neg = id.ends_with("neg");
            let w0: u64 = if neg { 0 } else { 0xffff_ffff_ffff_f000 };
            let mut all = vec![w0]; all.extend_from_slice(words);
            let mut rng = ScriptRng::new(&all, 0x5eed); let x: f64 = rd::StandardNormal.sample(&mut rng);
            const R: f64 = 3.654152885361008796;
            let ok = !x.is_nan() && (if neg { x <= -R } else { x >= R });
            Some((ok, format!("StandardNormal.sample(words {:?}) = {:?} (tail branch, u {}; expected |x| >= R = {} with the sign of u)", all, x, if neg { "= -1" } else { "-> +1" }, R))) }
        _ => None,
    }
}

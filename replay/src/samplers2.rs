//! Native replays for the remaining sampler units (ziggurat steps, affine-map pairs, weighted float trees, ...).
use crate::rd;
use crate::ScriptRng;
use rd::Distribution;

pub fn replay_sampler2(id: &str, fl: &str, a: &[u64], words: &[u64]) -> Option<(bool, String)> {
    let _ = (fl, a);
    match id {
        "standard_normal" => { let mut rng = ScriptRng::new(words, 0x5eed); let x: f64 = rd::StandardNormal.sample(&mut rng);
            Some((x.is_finite(), format!("StandardNormal.sample(words {:?}) = {:?}", words, x))) }
        "exp1" => { let mut rng = ScriptRng::new(words, 0x5eed); let x: f64 = rd::Exp1.sample(&mut rng);
            Some((x.is_finite() && x >= 0.0, format!("Exp1.sample(words {:?}) = {:?}", words, x))) }
        "normal_tail_pos" | "normal_tail_neg" => {
            // first word fixed by the unit (layer 0, |u| extreme), the decoded words are the tail words
            let neg = id.ends_with("neg");
            let w0: u64 = if neg { 0 } else { 0xffff_ffff_ffff_f000 };
            let mut all = vec![w0]; all.extend_from_slice(words);
            let mut rng = ScriptRng::new(&all, 0x5eed); let x: f64 = rd::StandardNormal.sample(&mut rng);
            const R: f64 = 3.654152885361008796;
            let ok = !x.is_nan() && (if neg { x <= -R } else { x >= R });
            Some((ok, format!("StandardNormal.sample(words {:?}) = {:?} (tail branch, u {}; expected |x| >= R = {} with the sign of u)", all, x, if neg { "= -1" } else { "-> +1" }, R))) }
        _ => None,
    }
}

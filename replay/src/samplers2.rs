//! Native replays for the remaining sampler units (ziggurat steps, affine-map pairs, weighted float trees, ...).
use crate::rd;
use crate::ScriptRng;
use rd::Distribution;

pub fn replay_sampler2(id: &str, fl: &str, a: &[u64], words: &[u64]) -> Option<(bool, String)> {
    let _ = (fl, a);
    match id {
        "standard_normal" => { let mut rng = ScriptRng::new(words, 0x5eed); let x: f64 = rd::StandardNormal.sample(&mut rng);
            Some((x.is_finite(), format!("StandardNormal.sample(words {:?}) = {:?}", words, x))) }
        "exp1" => { let mut rng = ScriptRng::new(words, 0x5eed); let x: f64 = rd::Exp1.sample(&mut rng);
            Some((x.is_finite() && x >= 0.0, format!("Exp1.sample(words {:?}) = {:?}", words, x))) }
        _ => None,
    }
}
